#!/bin/bash
# development aid: deep collect-mode sweep over several properties (lists all violation classes, never fails)
# usage: sweep.sh <seed> <runs> <ID>...
seed=$1; runs=$2; shift 2
for id in "$@"; do
  echo "=== $id seed=$seed runs=$runs"
  VSIM_COLLECT=1 VERIF_SEED=$seed ./check $id --runs $runs 2>&1 | grep -v "^WARNING" | cut -c1-600
done
