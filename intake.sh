#!/bin/bash
# development aid: take delivery of a seeded breaking change produced by a sub-agent:
#   1. confirm in a scratch worktree: clean tree -> demo passes; mutation applied -> builds, existing tests pass, demo fails
#   2. run the property's check against the mutated tree (quick tier, then deeper if missed)
#   3. file it under /verif/seeded/<PID>-<name>-m<i>/ with patch.diff, demo, notes.md, meta.json
# usage: intake.sh <PID> <agentdir-out> <i> [deeper-runs]
export GOFLAGS=-mod=mod GOPROXY=off GOSUMDB=off GOTOOLCHAIN=local
pid=$1; out=$2; i=$3; deep=${4:-}
name=$(basename "$out" -out)
dst=/verif/seeded/$pid-$name-m$i
patch=$out/mutation$i.diff
demo=$(ls $out/demo${i}_test.go $out/demo$i/main.go 2>/dev/null | head -1)
[ -f "$patch" ] && [ -n "$demo" ] || { echo "missing deliverables in $out"; exit 2; }
# where does the demo go?  (first "<something>/demoN_test.go" mentioned in its header comment)
place=$(head -40 "$demo" | grep -oE "((cmd|examples)/[A-Za-z0-9_-]+|mp4|bits|avc|hevc|sei|aac|av1)/demo${i}_test.go" | head -1)
[ -z "$place" ] && place=$(head -40 "$demo" | grep -oE "(cmd|examples)/[A-Za-z0-9_-]+/" | head -1 | sed "s|\$|demo${i}_test.go|")
[ -n "$PLACE" ] && place="$PLACE"
[ -z "$place" ] && place="mp4/demo${i}_test.go"
runpat=$(head -40 "$demo" | grep -o "\-run [^ ]*" | head -1 | awk '{print $2}' | tr -d "'\"")
[ -z "$runpat" ] && runpat="TestDemo$i"
pkgdir=$(dirname "$place")
wt=/tmp/ev/intake-$name-$i-$$
mkdir -p /tmp/ev
git -C /repo worktree add -q --detach "$wt" HEAD || exit 2
trap 'git -C /repo worktree remove --force "$wt" 2>/dev/null' EXIT
cp "$demo" "$wt/$place"
clean=$(cd "$wt" && go test -vet=off -count=1 -run "$runpat" ./$pkgdir/ 2>&1 | tail -3)
echo "clean tree demo: $(echo "$clean" | tail -1)"
echo "$clean" | grep -q "^ok" || { echo "DEMO-DOES-NOT-PASS-ON-CLEAN-TREE"; echo "$clean"; exit 3; }
git -C "$wt" apply "$patch" 2>/dev/null || git -C "$wt" apply -3 "$patch" || { echo "PATCH-DOES-NOT-APPLY"; exit 3; }
( cd "$wt" && go build ./... ) || { echo "MUTANT-DOES-NOT-BUILD"; exit 3; }
mut=$(cd "$wt" && go test -vet=off -count=1 -run "$runpat" ./$pkgdir/ 2>&1 | tail -5)
echo "mutated tree demo: $(echo "$mut" | tail -1)"
echo "$mut" | grep -q "^FAIL\|^--- FAIL" || { echo "DEMO-DOES-NOT-FAIL-WITH-MUTATION"; exit 3; }
rm "$wt/$place"
suite=$(cd "$wt" && go test -vet=off -count=1 ./... 2>&1 | grep -v "^ok\|no test files")
[ -z "$suite" ] || { echo "MUTANT-FAILS-EXISTING-TESTS"; echo "$suite" | head -5; exit 3; }
echo "existing test suite: all ok with the mutation"
res=$(SKIP_TESTS=1 /verif/evalmut.sh "$pid" "$patch" 2>&1)
echo "$res" | tail -12
verdict=$(echo "$res" | grep "^RESULT" | awk '{print $2}')
tier="quick"
if [ "$verdict" != "DETECTED" ] && [ -n "$deep" ]; then
  res=$(SKIP_TESTS=1 /verif/evalmut.sh "$pid" "$patch" "$deep" 2>&1)
  echo "$res" | tail -12
  verdict=$(echo "$res" | grep "^RESULT" | awk '{print $2}')
  tier="--runs $deep"
fi
cls=$(echo "$res" | grep "^violation:" | sed 's/.*class=//' | sort -u | tr '\n' ' ')
mkdir -p "$dst"
cp "$patch" "$dst/patch.diff"; cp "$demo" "$dst/$(basename "$place")"; cp "$out/notes$i.md" "$dst/notes.md" 2>/dev/null
python3 - "$dst" "$pid" "$place" "$runpat" "$verdict" "$tier" "$cls" <<'PY'
import json,sys,subprocess
dst,pid,place,runpat,verdict,tier,cls=sys.argv[1:8]
head=subprocess.check_output(['git','-C','/repo','log','--format=%h','-1']).decode().strip()
notes=open(dst+'/notes.md').read() if __import__('os').path.exists(dst+'/notes.md') else ''
meta={"breaks_property":pid,"base_commit":head,"needs_to_manifest":notes[:1500],
 "demonstration":{"file":place.split('/')[-1],"place_at":place,"run":"go test -vet=off -count=1 -run %s ./%s/"%(runpat,'/'.join(place.split('/')[:-1]))},
 "confirmed":["clean tree: demonstration passes","mutation applied: go build ./... ok, complete existing test suite ok, demonstration fails"],
 "check_result":{"command":"./check %s (%s) against a scratch worktree with patch.diff applied"%(pid,tier),"verdict":verdict,"violation_classes":cls.split()}}
json.dump(meta,open(dst+'/meta.json','w'),indent=1)
PY
echo "FILED $dst verdict=$verdict classes=$cls"
