#!/usr/bin/env python3
"""Regenerates the table of repair commits in DESIGN.md section 12 from /repo's git log and known_findings.json."""
import json, subprocess, os, re
root = os.path.dirname(os.path.abspath(__file__))
k = json.load(open(os.path.join(root, "known_findings.json")))
log = subprocess.check_output(["git", "-C", "/repo", "log", "--format=%h %s", "--reverse"]).decode().splitlines()
fixes = [l for l in log if " fix:" in l]
rows = []
for l in fixes:
    h, msg = l.split(" ", 1)
    props = sorted(set(f["property"] for f in k["findings"] if f.get("commit") and (f["commit"].startswith(h[:7]) or h.startswith(f["commit"][:7]))))
    rows.append("| `%s` | %s | %s |" % (h, ", ".join(props) or "?", msg[5:]))
table = "<!-- FIX-TABLE-BEGIN -->\n%d repair commits:\n\n| commit | property | what was wrong |\n|---|---|---|\n%s\n<!-- FIX-TABLE-END -->" % (len(fixes), "\n".join(rows))
p = os.path.join(root, "DESIGN.md")
s = open(p).read()
if "<!-- FIX-TABLE-BEGIN -->" in s:
    s = re.sub(r"<!-- FIX-TABLE-BEGIN -->.*?<!-- FIX-TABLE-END -->", lambda _: table, s, flags=re.S)
else:
    a = s.index("(suppressing nothing). ")
    a = s.index("\n", a)
    b = s.index("**Open known finding (not repaired):**")
    s = s[:a] + "\n\n" + table + "\n\n" + s[b:]
open(p, "w").write(s)
print(len(fixes), [r for r in rows if "| ? |" in r])
