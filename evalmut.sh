#!/bin/bash
# development aid: run a property's check against a seeded mutation in a scratch worktree (never touches /repo's tree)
# usage: evalmut.sh <property id> <patch.diff> [runs]
# prints DETECTED <class...> or MISSED; leaves nothing behind.
export GOFLAGS=-mod=mod GOPROXY=off GOSUMDB=off GOTOOLCHAIN=local
id=$1; patch=$(readlink -f "$2"); runs=${3:-}
tag=$(basename "$patch" .diff)-$$
wt=/tmp/ev/wt-$tag; vc=/tmp/ev/verif-$tag
mkdir -p /tmp/ev
git -C /repo worktree add -q --detach "$wt" HEAD || exit 2
cleanup() { git -C /repo worktree remove --force "$wt" 2>/dev/null; rm -rf "$vc"; }
trap cleanup EXIT
if ! git -C "$wt" apply "$patch" 2>/dev/null && ! git -C "$wt" apply -3 "$patch"; then echo "PATCH-DOES-NOT-APPLY"; exit 2; fi
( cd "$wt" && go build ./... ) || { echo "MUTANT-DOES-NOT-BUILD"; exit 2; }
if [ -z "$SKIP_TESTS" ]; then
  out=$(cd "$wt" && go test -vet=off -count=1 ./... 2>&1 | grep -v "^ok\|no test files")
  if [ -n "$out" ]; then echo "MUTANT-FAILS-EXISTING-TESTS: $out" | head -5; exit 2; fi
fi
rsync -a --exclude .git --exclude build --exclude bin --exclude replays --exclude evidence /verif/ "$vc/"
mkdir -p "$vc/replays" "$vc/evidence"
extra=()
[ -n "$runs" ] && extra=(--runs "$runs")
out=$(cd "$vc" && VERIF_REPO="$wt" VERIF_DIR="$vc" ./check "$id" "${extra[@]}" 2>&1)
rc=$?
echo "$out" | grep -E "^violation:|^  |KNOWN-FINDING|HARNESS|BUILD-FAILED|^vsim: property=.*exit=" | cut -c1-400 | head -24
if echo "$out" | grep -q "^VIOLATION"; then echo "RESULT: DETECTED (exit $rc)"; else echo "RESULT: MISSED (exit $rc)"; fi
