#!/bin/bash
# Simulator self-tests (not a property check):
#  1. determinism: every world is executed for the same seeds in separate coordinator+worker process groups with
#     different worker counts and GOMAXPROCS values; the digests over (run index -> event signature, tape length,
#     virtual time, outcome) must be identical.
#  2. harness decisions never iterate a map: grep.
# usage: selftest.sh [runs-per-world]   exit 0 = all digests agree
cd "$(dirname "$0")"
export VSIM_DIGEST=1 VSIM_COLLECT=1
runs=${1:-3000}
fail=0
if grep -n "range .*Faults\b\|range .*Probes\b" vsim/props/*.go vsim/work/*.go | grep -v "^Binary"; then echo "map iteration in a world"; fi
for id in C02 C03 C04 C05 C06 C06b C06c C08 C08b C08c C10 C11 C11b C11c C12 C12b C19 C20; do
  r=$runs
  [ "$id" = C20 ] && r=$((runs/10))
  ref=""
  for cfg in "16 16" "1 1" "5 4" "16 1" "3 16"; do
    set -- $cfg
    for seed in 1 99; do
      d=$(VERIF_SEED=$seed VERIF_WORKERS=$1 GOMAXPROCS=$2 ./bin/vsim run --prop $id --runs $r 2>/dev/null | grep "^DIGEST")
      key="$id seed=$seed"
      if [ -z "$d" ]; then echo "NO DIGEST for $key workers=$1 GOMAXPROCS=$2"; fail=1; fi
      eval "prev=\${ref_${id}_${seed}}"
      if [ -z "$prev" ]; then eval "ref_${id}_${seed}=\"$d\""; else
        if [ "$prev" != "$d" ]; then echo "NONDETERMINISM $key workers=$1 GOMAXPROCS=$2: $d vs $prev"; fail=1; fi
      fi
    done
  done
  eval "echo \"$id: \${ref_${id}_1} | \${ref_${id}_99}\""
done
[ $fail = 0 ] && echo "selftest: all digests agree" || echo "selftest: FAILED"
exit $fail
