#!/usr/bin/env python3
"""Regenerates the seeded-change table of DESIGN.md (between the SEEDED-TABLE markers) from seeded/*/meta.json."""
import json, glob, os, re
root = os.path.dirname(os.path.abspath(__file__))
notes = json.load(open(os.path.join(root, "seeded", "NOTES.json")))
rows = []
stats = {"total": 0, "first": 0, "later": 0, "superseded": 0, "missed": 0}
for d in sorted(glob.glob(os.path.join(root, "seeded", "C*-m*"))):
    m = json.load(open(d + "/meta.json"))
    name = os.path.basename(d)
    files = sorted(set(l[6:] for l in open(d + "/patch.diff").read().split("\n") if l.startswith("+++ b/")))
    title = next((l.strip("# ").strip() for l in m.get("needs_to_manifest", "").split("\n") if l.strip()), "")[:120]
    if name in notes:
        m["history"] = notes[name]
        json.dump(m, open(d + "/meta.json", "w"), indent=1)
    verdict = m["check_result"]["verdict"]
    stats["total"] += 1
    if m.get("status") == "superseded":
        stats["superseded"] += 1
    elif verdict != "DETECTED":
        stats["missed"] += 1
    elif name in notes and not notes[name].startswith("detected at the quick tier as delivered"):
        stats["later"] += 1
    else:
        stats["first"] += 1
    cls = " ".join("`%s`" % c for c in m["check_result"].get("violation_classes", [])[:2])[:150]
    rows.append("| `%s` | %s | %s | %s | %s %s | %s |" % (name, m["breaks_property"], ", ".join(files), title.replace("|", "/"), verdict, cls, notes.get(name, "detected at the quick tier as delivered")))
table = """<!-- SEEDED-TABLE-BEGIN -->
### Seeded changes from independent sub-agents (eight waves of 11 agents: 2 + 2 + 3 + 3 + 3 + 3 + 3 + 2 changes per agent, and a ninth of 4 agents x 2)

Each agent got only the text of one property and its own scratch worktree; nothing from /verif. Every change was
confirmed by me in a scratch worktree (`intake.sh`): the demonstration passes on the clean tree; with the change
applied `go build ./...` and the complete existing test suite pass and the demonstration fails. The property's check
was then run against a scratch worktree with the patch applied (`evalmut.sh`; /repo's own tree is never touched).

| seeded change | property | files touched | what it is | check verdict now (quick tier) | history |
|---|---|---|---|---|---|
%s

%d changes: %d were detected by the checks as they stood when the change arrived, %d were missed at first and each miss
was turned into a workload / fault / oracle extension (last column) after which it is detected at the quick tier,
%d are superseded (neutralised by a later repair of a base defect they led to), %d remain undetected by the check of the
property they were filed under (see the history column: C11-c11c-m1 changes no output of any C11 tool and is caught under C05; C04-c04e-m2 needs a conjunction the generators reach about 3 times in 10^8 runs; C03-c03f-m2 needs a two-traf protected fragment with mixed IV signalling that no generator or corpus file provides; C12-c12g-m2/m3 and the four wave-9 changes C05-c05i-m1/m2, C08-c08i-m2, C12-c12i-m1 are explained in their history notes).
<!-- SEEDED-TABLE-END -->""" % ("\n".join(rows), stats["total"], stats["first"], stats["later"], stats["superseded"], stats["missed"])
p = os.path.join(root, "DESIGN.md")
s = open(p).read()
if "<!-- SEEDED-TABLE-BEGIN -->" in s:
    s = re.sub(r"<!-- SEEDED-TABLE-BEGIN -->.*?<!-- SEEDED-TABLE-END -->", lambda _: table, s, flags=re.S)
else:
    a = s.index("### Wave 1 (22 changes")
    b = s.index("## 15. Self-validation results")
    s = s[:a] + table + "\n\n" + s[b:]
open(p, "w").write(s)
print(stats)
