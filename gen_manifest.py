#!/usr/bin/env python3
# Regenerates MANIFEST.json from the table below (kept as a script so that the manifest stays consistent).
import json, subprocess
NA = {
 "C01": "pure relation between a byte string and its re-encoding (bytes<->struct<->bytes); no clause involves delivery, failure, ordering, history or concurrency, so there is no schedule or fault for a simulator to own; deciding it needs input generation over box types/versions/field values, a different technique (its I/O-facing neighbours are decided under C02/C03)",
 "C07": "pure function of (sample bytes, key, IV, scheme, parameter sets) compared with a reference cipher; nothing depends on delivery, faults, order or interleaving",
 "C09": "pure table arithmetic on in-memory sample tables; the one query that touches I/O (CopySampleData) is decided under C08 against ground-truth bytes",
 "C13": "pure inverse pair over in-memory values/byte strings; the writers' io.Writer is only a byte sink and no clause concerns its failure",
 "C14": "pure functions of an in-memory byte string (NAL framing); no schedule, fault or history",
 "C15": "pure parse of in-memory NAL units against an independent serializer; input generation, not simulation",
 "C16": "helpers take complete []byte values; the only 'fault' is the content itself, i.e. mutation fuzzing, not fault injection at a seam",
 "C17": "pure write/parse inverse pair over in-memory SEI messages",
 "C18": "finite domain to enumerate exhaustively; nothing to schedule or fault",
}
CHECKS = {
 "C08": dict(level="exploration", ref="6/C08",
   text="Seeded search over disk delivery schedules, operation histories on a shared lazy handle and injected storage faults; every lazy result is compared three ways (lazy, in-memory, disk image / independent sample-table expansion); sample intervals of fragments are asked for in both modes (also on media data boxes with unused leading/trailing bytes). Two tool worlds cover the anchors outside the library: the segmenter's functions (single, multiplexed, lazy-write) and mp4ff-crop's cropMP4 run from a lazily decoded file on a SimDisk handle and from the fully decoded file; outputs must be byte-identical and satisfy the independent conservation / prefix oracles. Sampling, not enumeration: a clean batch is evidence, not proof.",
   note="Trusts the reference walker/demuxer in vsim/ref (written from ISO/IEC 14496-12, no mp4ff code) and the Go runtime; corpus files plus byte-surgery layout variants are the only file shapes; only contract-legal reader/writer behaviour is injected.",
   technique="deterministic simulation: SimDisk delivery/fault schedules + op histories vs ground-truth bytes, seeded, replayable, minimised"),
}
SETUP_TARGETS = "vsim race crop segmenter resegmenter combine encrypt decrypt addsidx"
CHECKS["C02"] = dict(level="fault_enumeration", ref="6/C02",
   text="For each sampled node the write-failure points of Encode are enumerated completely (every write op k, every write boundary -1/0/+1 as device-full budget, every slice-writer shortfall d in 1..64) against the first clean encoding as model; histories of Size/Info/Encode/EncodeSW are seeded. Nodes and histories are sampled; fault points per node are enumerated.",
   note="Objects are nodes of decoded corpus files (also after size-repaired unit transport incl. 64-bit size forms and undefined version bytes), packager-built productions and boxes built through the public constructors (esds, pssh, tenc, trun, moof, mdat, url/dref, ...); EncodeSW success = nil error and nil accumulated error; objects with separately written (lazy) mdat payload excluded by the library's documented design; reference size walker vsim/ref trusted.",
   technique="deterministic simulation: sink/slice-writer fault enumeration + seeded call histories vs first clean encoding, replayable tape")
CHECKS["C05"] = dict(level="exploration", ref="6/C05",
   text="Seeded search over packager API histories (single/multi-track, full/metadata-only/interval additions, empty tracks, foreign boxes, optimisation, either encoder), segment fetch order/duplication and delivery schedules; read-back by GetFullSamples and by an independent demuxer must equal the producer's sample log per fragment and track.",
   note="Only documented-valid API histories (incl. encoding the fragment under construction between two additions); one open known finding (samples added after an encode with trun optimisation take the earlier tfhd defaults: identified by a run-level class tag set when that history occurs in an optimised segment); fault-free transport; payload pools and field pools bound the values; reference demuxer vsim/ref (written from ISO/IEC 14496-12) trusted.",
   technique="deterministic simulation: seeded producer history + unit transport (order/dup) + delivery schedule; conservation/order/exactly-once vs sample log")
CHECKS["C03"] = dict(level="exploration", ref="6/C03",
   text="Seeded search over byte strings (corpus, packager streams, size-repaired unit-transport rearrangements), reader delivery schedules, stream cuts/read errors and sink capacities; the property's precondition (a path accepts and reproduces X exactly) is implemented literally and the other path must then accept and be deep-equal incl. grouping and start positions; Encode vs EncodeSW compared on sampled nodes with identical capacity on both sinks.",
   note="Deep equality is reflective (unexported fields, nil==empty); box types covered are those occurring in corpus/packager/transport output; decoder-table key sets compared through an add-only export file injected by -overlay.",
   technique="deterministic simulation: reader delivery/cut/EIO schedules + unit transport + common sink capacity; slice path as reference for stream path and vice versa")
CHECKS["C04"] = dict(level="exploration", ref="6/C04",
   text="Seeded fault injection into real and packager-made streams: unit transport at any depth with repaired or stale sizes, stored-byte faults placed on size/type/version/count fields by an independent header walk, truncation, EIO, seek errors, adversarial delivery; every library call (decode by four consumers x flags, Info at three levels, Size, Encode, EncodeSW in both modes) runs under no-panic, allocation-budget and wall-budget oracles in isolated worker processes with a hang/crash watchdog. Sampling: a clean batch is evidence, not proof.",
   note="Budget constants are ours (property fixes none): 160 MiB + 768 B/byte and 2 s + 200 us/byte, >=10x the maxima measured on the unchanged tree and reported in evidence; memory is measured not faulted; wall-clock overruns are confirmed by repetition and hangs in fresh processes. Sample-table queries on untrusted input (CopySampleData etc.) are outside the statement and not checked here.",
   technique="deterministic simulation with storage/transport fault injection: no-panic, allocation and time budgets per step; isolated workers + watchdog")
CHECKS["C19"] = dict(level="exploration", ref="6/C19",
   text="Seeded search over init-building call histories (1-6 tracks, all seven descriptor setters, language tags, timescales); the encoded bytes are read back by an independent walker and compared with a reference model of the track list, then sent through a simulated transport (delivery schedule, either decode path), compared deeply with the built tree, re-encoded, and used to decode a fragment built for a seeded track id.",
   note="This property has no fault or schedule dimension; the simulator contributes the seeded history search, replay/minimisation and the transport round trip. Parameter sets are fixed public vectors or SPS NAL units written by the harness (AVC and HEVC; the avcC/hvcC profile, level, chroma format and bit depth fields must repeat what the supplied SPS codes); expectations for handler/media header come from ISO/IEC 14496-12/-30.",
   technique="deterministic simulation: seeded API-history search vs reference model of the track list + transport round trip")
CHECKS["C12"] = dict(level="exploration", ref="6/C12",
   text="Seeded search over producer histories and delimiter modes (styp, raw sidx v0/v1 with first_offset, raw mfra + ISM flag on a seekable simulated disk incl. seek errors, none, start-on-moof), decode path/mode/delivery, foreign top-level boxes (one of them optionally in the 64-bit size form), media data boxes with unused leading/trailing bytes, and UpdateSidx/Encode histories; grouping is compared with the producer's emission log, re-encoded bytes with the emitted units, and the index with positions and durations found independently in the output bytes. A second world pushes the same emitted streams through examples/add-sidx's run() (seeded flags) and applies the fragment-bytes and index oracles to the file it writes.",
   note="Pure delimiter modes only (precedence between mixed delimiters is not defined by the statement); reference walker/demuxer vsim/ref trusted; reference_ID and earliest_presentation_time values not constrained by the statement.",
   technique="deterministic simulation: unit-stream state machine driven by a producer log + seekable SimDisk; conservation/order of moof-mdat pairs and index tiling vs independent walk")
CHECKS["C06"] = dict(level="exploration", ref="6/C06",
   text="Seeded search over clear single-track productions (real AVC/HEVC/AAC corpus samples and synthetic payloads at the CENC size thresholds), schemes, keys, IV sizes/values incl. counter wrap, foreign boxes in moof/traf, two encryptor flows (decoded vs freshly built objects), one refused write while inits and decrypted files are encoded, and player behaviour: whole stream or separately delivered init, segment order/repeats, decode path, delivery, re-encode mode; oracle = clear sample log read back by an independent demuxer, restored sample entry, multiset of non-protection boxes; third-party encrypted corpus files keep sizes and timing. Two further worlds run the inner functions of mp4ff-encrypt (encryptFile) and mp4ff-decrypt (decryptFile) between simulated input streams and sinks with read/write faults: success must satisfy the same oracles, nil after a failed read/write or an error without fault is a violation.",
   note="Standard-conformance of the ciphertext is C07 (not decided); single track / single trun per fragment as the API documents; reference demuxer vsim/ref trusted; box order is not demanded (multiset).",
   technique="deterministic simulation: producer -> encryptor -> origin -> player with seeded unit transport (separate init, order, repeats) and delivery; conservation vs clear sample log and box inventory")
CHECKS["C20"] = dict(level="exploration", ref="6/C20",
   text="Seeded search over interleavings of 2-6 caller goroutines with scripted work on their own objects derived from shared read-only inputs. Built with -race; goroutines are serialised by a baton invisible to the race detector, so each seed is one exactly replayable schedule while the detector still reports every conflicting access pair between tasks; scheduling points are step boundaries and every Read/Seek/Write a task makes on its own device handle (so tasks interleave inside library calls), some writes are refused, pooled objects are isolated per run; steps cover decode/Info/encode/refragment/encrypt/decrypt, Annex B and parameter-set parsing, SEI messages parsed and built by hand, and brands added to the task's own decoded ftyp/styp boxes; plus output==solo-output, shared-input hash and registry fingerprint oracles; a free-running mode at GOMAXPROCS 1/4/16 cross-checks.",
   note="Trusts the Go race detector (assembly routines such as AES/XOR kernels are not instrumented: writes through them are caught by the input-hash oracle instead); registry-modifying calls excluded by the statement; one open known finding (slice-path aliasing + in-place crypto).",
   technique="deterministic simulation: tape-drawn serialised goroutine schedules (step and I/O-point granularity) under the race detector (race-invisible baton) + non-interference oracles")
CHECKS["C10"] = dict(level="exploration", ref="6/C10",
   text="The tool's inner function cropMP4 runs inside an in-package harness with both of its seams simulated: lazy input on a SimDisk (delivery schedules, EIO, seek errors, truncation) and a faulty output sink; inputs are corpus files, layout variants (mdat position/size form, extra empty mdat, free pad, moov children in another order) and raw-muxer files; whenever it returns nil the output is compared, by an independent demuxer, with the prefix the statement defines (exact integer arithmetic).",
   note="Conditional on success (errors and panics impose nothing); no claim when no sync sample starts at or after the requested duration; run()/flags/os files are real and un-faulted (one smoke run); raw muxer and reference demuxer are ours, written from ISO/IEC 14496-12.",
   technique="deterministic simulation: tool function between a simulated lazy disk and a faulty sink; prefix oracle from an independent sample-table expansion")
CHECKS["C11"] = dict(level="exploration", ref="6/C11",
   text="Three simulated worlds, one per tool binary: (segmenter) the example's own functions fed from a SimDisk (eager/lazy decode, delivery schedules, EIO/seek errors/truncation on the lazy source) over corpus and raw-muxer inputs and seeded segment durations in single-track, multiplexed and lazy-write modes; (resegmenter + Fragmentify) seeded chunk/fragment durations over packager streams and corpus; (combine-segs) 2-3 single-track productions combined; per-track sample conservation is decided by an independent demuxer.",
   note="Tool stages are checked one at a time (each tool is its own package main, so they cannot be chained inside one process); stages without an I/O seam (Resegment, Fragmentify, combine*) have no fault dimension; output and combine-segs input files are real scratch files; tool error/panic => no claim.",
   technique="deterministic simulation: tool functions behind a simulated lazy disk + seeded producer histories; per-track conservation/order vs independent demuxer")
PENDING = {k: "claimed in DESIGN.md but its check is not built yet in this revision (work in progress; will move to checks)" for k in ["C02","C03","C04","C05","C06","C10","C11","C12","C19","C20"] if k not in CHECKS}
def main():
    checks = []
    for pid in sorted(CHECKS):
        c = CHECKS[pid]
        checks.append({
          "property_id": pid,
          "quick_cmd": "./check %s --tier quick" % pid,
          "thorough_cmd": "./check %s --tier thorough" % pid,
          "evidence_file": "evidence/%s.json" % pid,
          "replay_cmd_template": "./check replay {path}",
          "engine": "vsim",
          "level_claimed": {"category": c["level"], "text": c["text"], "design_ref": "DESIGN.md section " + c["ref"]},
          "level_note": c["note"],
          "technique": c["technique"],
        })
    na = [{"property_id": k, "reason": NA[k]} for k in sorted(NA)]
    for k in sorted(PENDING):
        na.append({"property_id": k, "reason": PENDING[k]})
    m = {
      "version": 1,
      "setup_cmd": "./build.sh " + SETUP_TARGETS,
      "hooks": {
        "guard": "verif",
        "enable": "no source hooks: harness files are injected at build time with `go build/test -overlay=build/overlay.json` (generated by build.sh) into non-existent paths of /repo (internal/vsim/..., cmd/*/zz_vsim_*_test.go); nothing in /repo is replaced",
        "baseline_off_cmd": "cd /repo && GOFLAGS=-mod=mod GOPROXY=off GOSUMDB=off go test -json -vet=off -count=1 -timeout 25m ./...",
        "source_commits": [],
        "add_only": True,
      },
      "engines": [{"name": "vsim", "path": "vsim/", "serves_properties": sorted(CHECKS), "kind_free_text": "deterministic simulator: one choice tape per run (seeded PRNG, recorded, replayable, delta-debugged), simulated disk/sinks/slice-writer/unit transport, baton scheduler for caller tasks, multi-process coordinator with hang/crash watchdog"}],
      "checks": checks,
      "not_applicable": na,
      "notes": "Genuine defects repaired in /repo as 'fix:' commits are listed in known_findings.json (status fixed; they suppress nothing). See DESIGN.md.",
    }
    json.dump(m, open("MANIFEST.json", "w"), indent=1)
    print("checks:", [c["property_id"] for c in checks], "n/a:", len(na))
main()
