#!/usr/bin/env python3
"""Merge the evidence of several simulated worlds that together decide one property.
usage: merge_evidence.py <property id> <world id>...   (reads evidence/<world>.json, writes evidence/<property>.json)
All numbers are sums/maxima of what the worlds measured in this run."""
import json, os, sys
prop, worlds = sys.argv[1], sys.argv[2:]
d = os.path.join(os.path.dirname(os.path.abspath(__file__)), "evidence")
evs = []
for w in worlds:
    p = os.path.join(d, w + ".json")
    evs.append((w, json.load(open(p))))
out = dict(evs[0][1])
cov = dict(out["coverage"])
def addmap(k):
    m = {}
    for _, e in evs:
        for kk, v in (e["coverage"].get(k) or {}).items():
            m[kk] = m.get(kk, 0) + v
    return m
for k in ["evaluations", "distinct_nontrivial", "nontrivial_runs", "scheduler_steps", "planned_runs"]:
    cov[k] = sum(e["coverage"].get(k, 0) for _, e in evs)
cov["simulated_seconds"] = sum(e["coverage"].get("simulated_seconds", 0) for _, e in evs)
for k in ["faults_fired", "probes_hit", "known_finding_hits"]:
    cov[k] = addmap(k)
for k in ["faults_never_fired", "probes_never_hit", "components_real", "components_stub", "components_real_unfaulted"]:
    seen = []
    for _, e in evs:
        for x in e["coverage"].get(k) or []:
            if x not in seen:
                seen.append(x)
    cov[k] = seen
cov["samples"] = [s for _, e in evs for s in e["coverage"].get("samples", [])[:3]]
cov["rule"] = " || ".join("[world %s] %s" % (w, e["coverage"].get("rule", "")) for w, e in evs)
cov["wall_capped"] = any(e["coverage"].get("wall_capped") for _, e in evs)
wall = sum(e.get("wall_s", 0) for _, e in evs)
cov["runs_per_hour"] = int(cov["evaluations"] / wall * 3600) if wall > 0 else 0
cov["worlds"] = {w: {"evaluations": e["coverage"]["evaluations"], "distinct_nontrivial": e["coverage"]["distinct_nontrivial"], "wall_s": e.get("wall_s")} for w, e in evs}
out["coverage"] = cov
out["property_id"] = prop
out["wall_s"] = wall
out["violations"] = sum(e.get("violations", 0) for _, e in evs)
ass = []
for _, e in evs:
    for a in e.get("assumptions") or []:
        if a not in ass:
            ass.append(a)
out["assumptions"] = ass
json.dump(out, open(os.path.join(d, prop + ".json"), "w"), indent=1)
for w in worlds:
    if w != prop:
        os.remove(os.path.join(d, w + ".json"))
