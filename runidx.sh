#!/bin/bash
# development aid: re-execute run <idx> of property <id> from its seed (collect mode) and print the trace
# usage: runidx.sh <ID> <idx> [seed]
f=$(mktemp /tmp/runidx.XXXXXX.json)
echo "{\"property\":\"$1\",\"seed\":${3:-1},\"run_index\":$2,\"violation\":{\"class\":\"x\",\"msg\":\"\"},\"kind\":\"hang\"}" > $f
VSIM_COLLECT=1 /verif/bin/vsim replay $f 2>&1 | grep -v "^WARNING" | cut -c1-700
rm -f $f
