#!/bin/bash
# Build the simulator from /verif/vsim against /repo's CURRENT working tree using go's -overlay
# (harness sources are mapped to non-existent paths inside /repo; nothing in /repo is replaced or modified).
# usage: build.sh [vsim|race|crop|segmenter|...]...   (default: vsim)
set -e
export GOFLAGS=-mod=mod GOPROXY=off GOSUMDB=off GOTOOLCHAIN=local
VERIF="${VERIF_DIR:-$(cd "$(dirname "$0")" && pwd)}"
REPO="${VERIF_REPO:-/repo}"
mkdir -p "$VERIF/build" "$VERIF/bin"
OV="$VERIF/build/overlay.json"
python3 - "$VERIF" "$REPO" "$OV" <<'PY'
import json, os, sys
verif, repo, ov = sys.argv[1:4]
rep = {}
src = os.path.join(verif, "vsim")
for d, _, fs in os.walk(src):
    for f in fs:
        if not f.endswith(".go"):
            continue
        p = os.path.join(d, f)
        rel = os.path.relpath(p, src)
        parts = rel.split(os.sep)
        if parts[0] == "tools":
            # tools/<tool-dir-with-__-for-slash>/<file>_test.go -> in-package test file of that tool
            tooldir = parts[1].replace("__", os.sep)
            rep[os.path.join(repo, tooldir, "zz_vsim_" + parts[2])] = p
        else:
            rep[os.path.join(repo, "internal", "vsim", rel)] = p
tmp = ov + ".tmp%d" % os.getpid()
json.dump({"Replace": rep}, open(tmp, "w"), indent=1)
os.replace(tmp, ov)
PY
targets="$@"
[ -z "$targets" ] && targets="vsim"
cd "$REPO"
for t in $targets; do
  case "$t" in
    vsim) go build -overlay="$OV" -o "$VERIF/bin/vsim" ./internal/vsim/cmd/vsim ;;
    race) go build -race -overlay="$OV" -o "$VERIF/bin/vsim-race" ./internal/vsim/cmd/vsim ;;
    crop) go test -c -vet=off -overlay="$OV" -o "$VERIF/bin/crop.test" ./cmd/mp4ff-crop ;;
    segmenter) go test -c -vet=off -overlay="$OV" -o "$VERIF/bin/segmenter.test" ./examples/segmenter ;;
    resegmenter) go test -c -vet=off -overlay="$OV" -o "$VERIF/bin/resegmenter.test" ./examples/resegmenter ;;
    encrypt) go test -c -vet=off -overlay="$OV" -o "$VERIF/bin/encrypt.test" ./cmd/mp4ff-encrypt ;;
    decrypt) go test -c -vet=off -overlay="$OV" -o "$VERIF/bin/decrypt.test" ./cmd/mp4ff-decrypt ;;
    addsidx) go test -c -vet=off -overlay="$OV" -o "$VERIF/bin/addsidx.test" ./examples/add-sidx ;;
    combine) go test -c -vet=off -overlay="$OV" -o "$VERIF/bin/combine.test" ./examples/combine-segs ;;
    *) echo "unknown build target $t" >&2; exit 2 ;;
  esac
done
