//go:build go1.21

package work

import (
	"bytes"
	"encoding/binary"
	"fmt"
	"io"
	"strings"

	"github.com/Eyevinn/mp4ff/aac"
	"github.com/Eyevinn/mp4ff/bits"
	"github.com/Eyevinn/mp4ff/internal/vsim/sim"
	"github.com/Eyevinn/mp4ff/mp4"
)

// SampleRec is one entry of the producer's sample log (ground truth handed to the API).
type SampleRec struct {
	Data  []byte
	Dur   uint32
	Flags uint32
	Cto   int32
	Dts   uint64
}

// TrackSpec describes one track of a production.
type TrackSpec struct {
	ID        uint32
	Media     string // "video" | "audio"
	Timescale uint32
	Codec     string
}

// FragRec records which log entries went into a fragment, per track index.
type FragRec struct {
	Seq     uint32
	From    []int // per track index: first log entry
	To      []int // per track index: one past last log entry
	Mode    string
	Foreign []string
}

// SegRec is one emitted media segment.
type SegRec struct {
	Frags    []FragRec
	Bytes    []byte
	HasStyp  bool
	Optimize bool
	ViaSW    bool
	Seg      *mp4.MediaSegment // the built object (after encoding)
	Objs     []*mp4.Fragment
}

// Production is everything a packager node emitted plus its ground-truth log.
type Production struct {
	Tracks    []TrackSpec
	Init      *mp4.InitSegment
	InitBytes []byte
	Log       [][]SampleRec // per track index
	Segs      []*SegRec
	// SwallowedWriteError is set when a segment's Encode returned nil although its writer refused a write (WriteFaults)
	SwallowedWriteError string
}

// PackOpts bounds the packager.
type PackOpts struct {
	MaxTracks       int
	MaxSegs         int
	MaxFrags        int
	MaxSamples      int  // per fragment per track
	Foreign         bool // allow foreign boxes in and between fragments
	NALVideo        bool // video payloads are length-prefixed NAL units
	NoMeta          bool // never use metadata-only mode (payload written separately; Size() then exceeds what Encode writes, by design)
	NoInterval      bool // never use AddSampleInterval (data parts)
	NoEmptyTrack    bool
	AudioOnly       bool
	BigSamples      bool
	ManySamples     bool // a few single-track fragments hold 1000-1079 identical samples
	EncodeBetween   bool // a fragment under construction may be encoded (and the bytes thrown away) between two additions
	WriteFaults     bool // some segments are also written to a sink that refuses one write
	EmsgOnly        bool // with Foreign off: emsg boxes may still precede a moof
	LargeMdat       bool // some fragments write their mdat with the 64-bit size form (MdatBox.LargeSize)
	HugeDurs        bool // a few sample durations around 2^31 / 2^32-1 (legal; sums inside one trun pass 2^32)
	MixIntervalFull bool // single samples (AddFullSample) may follow sample intervals in one fragment
	SplitTruns      bool // single-track fragments may carry their samples in two trun boxes (legal; built with CreateTrun/AddChild)
	Styp            int  // 0: seeded per segment, 1: every segment, 2: never
	MinSegs         int
}

var avcSPS, avcPPS [][]byte

func loadParamSets() error {
	if avcSPS != nil {
		return nil
	}
	var stsd *mp4.StsdBox
	for _, cf := range corpus {
		if !cf.HasMoov || len(cf.Data) > 4096 {
			continue
		}
		f, err := mp4.DecodeFile(bytes.NewReader(cf.Data))
		if err != nil || f.Moov == nil || f.Moov.Trak == nil {
			continue
		}
		sd := f.Moov.Trak.Mdia.Minf.Stbl.Stsd
		if sd != nil && sd.AvcX != nil && sd.AvcX.AvcC != nil && len(sd.AvcX.AvcC.SPSnalus) > 0 && sd.AvcX.Type() == "avc1" {
			stsd = sd
			break
		}
	}
	if stsd == nil {
		return fmt.Errorf("packager: no corpus init segment with avcC found")
	}
	avcSPS = stsd.AvcX.AvcC.SPSnalus
	avcPPS = stsd.AvcX.AvcC.PPSnalus
	return nil
}

// SetupPackager loads what the packager needs from the corpus.
func SetupPackager() error {
	if _, err := LoadCorpus(); err != nil {
		return err
	}
	return loadParamSets()
}

func drawDur(t *sim.Tape, huge bool) uint32 {
	if huge && t.Chance(40) {
		return []uint32{0x7fffffff, 0x80000000, 0xffffffff, 0x7fffffff}[t.Draw(4)]
	}
	return durPool[t.Draw(len(durPool))]
}

var durPool = []uint32{1024, 1024, 1024, 512, 3000, 1, 0, 90000}
var flagPool = []uint32{mp4.NonSyncSampleFlags, mp4.NonSyncSampleFlags, mp4.SyncSampleFlags, 0x01010000, 0, 0x02800040, 0x02010000}
var ctoPool = []int32{0, 0, 0, 1024, 2048, -512, 3000, -1}
var sizePool = []int{100, 1, 2, 15, 16, 17, 95, 111, 112, 113, 127, 128, 129, 200, 1000, 4096, 0}
var tsPool = []uint32{90000, 48000, 1000, 12800, 1}

func makePayload(t *sim.Tape, rnd *sim.Rand, video, nal, big bool) []byte {
	if !video || !nal {
		n := sizePool[t.Draw(len(sizePool))]
		if big && t.Chance(30) {
			n = 65535 + t.Draw(3000)
		}
		b := make([]byte, n)
		rnd.Fill(b)
		return b
	}
	nn := 1 + t.Draw(3)
	var out []byte
	for i := 0; i < nn; i++ {
		n := sizePool[t.Draw(len(sizePool)-1)] // NAL units are non-empty
		if big && t.Chance(30) {
			n = 65535 + t.Draw(3000)
		}
		nalu := make([]byte, n)
		rnd.Fill(nalu)
		nalu[0] = []byte{0x65, 0x41, 0x06, 0x09, 0x01}[t.Draw(5)] // IDR, non-IDR, SEI, AUD, non-IDR
		var l [4]byte
		binary.BigEndian.PutUint32(l[:], uint32(n))
		out = append(out, l[:]...)
		out = append(out, nalu...)
	}
	return out
}

func foreignBox(t *sim.Tape, rnd *sim.Rand, where string) (mp4.Box, string) {
	n := t.Draw(40)
	pl := make([]byte, n)
	rnd.Fill(pl)
	kinds := 5
	switch t.Draw(kinds) {
	case 0:
		return mp4.NewFreeBox(pl), "free"
	case 1:
		return mp4.NewSkipBox(pl), "skip"
	case 2:
		name := []string{"zzzz", "abcd", "ABCD", "x y "}[t.Draw(4)]
		return mp4.CreateUnknownBox(name, uint64(8+n), pl), "unknown:" + name
	case 3:
		if where == "traf" || t.Bool() {
			return mp4.NewTfxdBox(uint64(t.Draw(1000000)), uint64(t.Draw(100000))), "uuid:tfxd"
		}
		return mp4.NewTfrfBox(1, []uint64{uint64(t.Draw(1000000))}, []uint64{uint64(t.Draw(100000))}), "uuid:tfrf"
	default:
		u := &mp4.UUIDBox{UnknownPayload: pl}
		_ = u.SetUUID("0123456789abcdef0123456789abcdef")
		return u, "uuid:unknown"
	}
}

func fragModes(sr *SegRec) []string {
	var m []string
	for _, f := range sr.Frags {
		m = append(m, f.Mode)
	}
	return m
}

func makeEmsg(t *sim.Tape) *mp4.EmsgBox {
	return &mp4.EmsgBox{Version: byte(t.Draw(2)), TimeScale: 90000, PresentationTime: uint64(t.Draw(100000)), PresentationTimeDelta: uint32(t.Draw(1000)),
		EventDuration: uint32(t.Draw(5000)), ID: uint32(t.Draw(100)), SchemeIDURI: "urn:vsim:event", Value: "v", MessageData: []byte("hello")[:t.Draw(6)]}
}

// Package runs a packager node: an init segment and a seeded history of segments x fragments x sample additions.
func Package(r *sim.Run, o PackOpts) (*Production, error) {
	t := r.T
	rnd := t.Sub()
	p := &Production{}
	nTracks := 1 + t.Draw(o.MaxTracks)
	init := mp4.CreateEmptyInit()
	for i := 0; i < nTracks; i++ {
		ts := TrackSpec{ID: uint32(i + 1), Timescale: tsPool[t.Draw(len(tsPool))]}
		if o.AudioOnly || t.Draw(3) == 2 {
			ts.Media = "audio"
		} else {
			ts.Media = "video"
		}
		lang := []string{"und", "eng", "swe", "en-US", "sv"}[t.Draw(5)]
		init.AddEmptyTrack(ts.Timescale, ts.Media, lang)
		trak := init.Moov.Traks[i]
		if ts.Media == "video" {
			ts.Codec = "avc1"
			if err := trak.SetAVCDescriptor("avc1", avcSPS, avcPPS, true); err != nil {
				return nil, fmt.Errorf("SetAVCDescriptor: %w", err)
			}
		} else {
			ts.Codec = "mp4a"
			if err := trak.SetAACDescriptor(aac.AAClc, 48000); err != nil {
				return nil, fmt.Errorf("SetAACDescriptor: %w", err)
			}
		}
		p.Tracks = append(p.Tracks, ts)
	}
	p.Init = init
	var ib bytes.Buffer
	if err := init.Encode(&ib); err != nil {
		return nil, fmt.Errorf("init encode: %w", err)
	}
	p.InitBytes = ib.Bytes()
	p.Log = make([][]SampleRec, nTracks)
	nextDts := make([]uint64, nTracks)
	for i := range nextDts {
		nextDts[i] = uint64(t.Draw(3)) * 100000
		if t.Chance(80) {
			// decode times around the 32-bit boundary of the version-0 tfdt
			nextDts[i] = []uint64{1<<32 - 1024, 1<<32 - 2048, 1<<32 - 1, 1 << 32, 1<<32 + 1, 1<<32 - 3000}[t.Draw(6)]
		}
	}
	// the caller's scratch table for AddSamples / AddSampleInterval batches: one backing array reused for every
	// batch of the whole production (sub-slices of one table, overwritten for the next batch), which is legal for a
	// caller unless the API documents that it keeps the slice
	scratch := make([]mp4.Sample, 0, 64)
	nSegs := 1 + t.Draw(o.MaxSegs)
	if nSegs < o.MinSegs {
		nSegs = o.MinSegs
	}
	seq := uint32(1 + t.Draw(5))
	r.Logf("packager: tracks=%d segs=%d", nTracks, nSegs)
	for si := 0; si < nSegs; si++ {
		sr := &SegRec{HasStyp: !t.Chance(250), Optimize: t.Bool(), ViaSW: t.Bool()}
		switch o.Styp {
		case 1:
			sr.HasStyp = true
		case 2:
			sr.HasStyp = false
		}
		var seg *mp4.MediaSegment
		if sr.HasStyp {
			seg = mp4.NewMediaSegment()
		} else {
			seg = mp4.NewMediaSegmentWithoutStyp()
		}
		if sr.Optimize {
			seg.EncOptimize = mp4.OptimizeTrun
		}
		nFrags := 1 + t.Draw(o.MaxFrags)
		anyMeta := false
		var payloads [][]byte // per fragment: separately written data (meta mode)
		for fi := 0; fi < nFrags; fi++ {
			fr := FragRec{Seq: seq, From: make([]int, nTracks), To: make([]int, nTracks)}
			for ti := range fr.From {
				fr.From[ti] = len(p.Log[ti])
			}
			multi := nTracks > 1 && !t.Chance(300)
			var frag *mp4.Fragment
			var trackIdx []int // tracks present in this fragment
			if multi {
				ids := make([]uint32, nTracks)
				for i := range ids {
					ids[i] = uint32(i + 1)
					trackIdx = append(trackIdx, i)
				}
				frag, _ = mp4.CreateMultiTrackFragment(seq, ids)
			} else {
				ti := t.Draw(nTracks)
				trackIdx = []int{ti}
				frag, _ = mp4.CreateFragment(seq, uint32(ti+1))
			}
			seq++
			if o.LargeMdat && t.Chance(60) {
				frag.Mdat.LargeSize = true // the media data box is written with the 64-bit size form
			}
			mode := "full"
			modes := []string{"full"}
			if !o.NoMeta {
				modes = append(modes, "meta")
			}
			if !multi && !o.NoInterval {
				modes = append(modes, "interval")
			}
			mode = modes[t.Draw(len(modes))]
			fr.Mode = mode
			if mode == "interval" && o.MixIntervalFull && t.Chance(250) {
				fr.Mode = "interval+full"
			}
			if multi {
				fr.Mode += "/multi"
			}
			// foreign boxes inside moof/traf are added through the API before samples
			if o.Foreign && t.Chance(300) {
				if t.Bool() {
					b, name := foreignBox(t, rnd, "traf")
					_ = frag.Moof.Trafs[t.Draw(len(frag.Moof.Trafs))].AddChild(b)
					fr.Foreign = append(fr.Foreign, "traf:"+name)
				} else {
					b, name := foreignBox(t, rnd, "moof")
					_ = frag.Moof.AddChild(b)
					fr.Foreign = append(fr.Foreign, "moof:"+name)
				}
			}
			var payload []byte
			// per-track number of samples; a track of a multi-track fragment may get none
			counts := make([]int, nTracks)
			total := 0
			for _, ti := range trackIdx {
				counts[ti] = 1 + t.Draw(o.MaxSamples)
				if multi && !o.NoEmptyTrack && t.Chance(150) {
					counts[ti] = 0
				}
				total += counts[ti]
			}
			if total == 0 {
				counts[trackIdx[0]] = 1
				total = 1
			}
			// a long run of identical samples (fixed-size, fixed-duration frames as PCM-like codecs have), which trun
			// optimisation can describe without any per-sample field
			uniformRun := o.ManySamples && !multi && mode == "full" && t.Chance(25)
			if uniformRun {
				counts[trackIdx[0]] = 1000 + t.Draw(80)
				total = counts[trackIdx[0]]
				fr.Mode += "/uniform-run"
			}
			left := append([]int(nil), counts...)
			intervalDone, singles := false, false
			newRec := func(ti int) SampleRec {
				video := p.Tracks[ti].Media == "video"
				if uniformRun {
					rec := SampleRec{Data: []byte{0xab, 0xcd}, Dur: 1024, Flags: mp4.SyncSampleFlags, Dts: nextDts[ti]}
					nextDts[ti] += 1024
					p.Log[ti] = append(p.Log[ti], rec)
					return rec
				}
				rec := SampleRec{
					Data:  makePayload(t, rnd, video, o.NALVideo, o.BigSamples),
					Dur:   drawDur(t, o.HugeDurs),
					Flags: flagPool[t.Draw(len(flagPool))],
					Cto:   ctoPool[t.Draw(len(ctoPool))],
					Dts:   nextDts[ti],
				}
				nextDts[ti] += uint64(rec.Dur)
				p.Log[ti] = append(p.Log[ti], rec)
				return rec
			}
			toSample := func(rec SampleRec) mp4.Sample {
				return mp4.Sample{Flags: rec.Flags, Dur: rec.Dur, Size: uint32(len(rec.Data)), CompositionTimeOffset: rec.Cto}
			}
			for total > 0 {
				// which track gets the next addition
				var cands []int
				for _, ti := range trackIdx {
					if left[ti] > 0 {
						cands = append(cands, ti)
					}
				}
				ti := cands[t.Draw(len(cands))]
				id := uint32(ti + 1)
				switch mode {
				case "full":
					rec := newRec(ti)
					fs := mp4.FullSample{Sample: toSample(rec), DecodeTime: rec.Dts, Data: rec.Data}
					if !multi && t.Bool() {
						frag.AddFullSample(fs)
						r.Event("AddFullSample", ti)
					} else {
						if err := frag.AddFullSampleToTrack(fs, id); err != nil {
							return nil, fmt.Errorf("AddFullSampleToTrack: %w", err)
						}
						r.Event("AddFullSampleToTrack", ti)
					}
					left[ti]--
					total--
					if o.EncodeBetween && total > 0 && t.Chance(25) {
						// the caller looks at the fragment so far (e.g. to publish a partial chunk) and goes on adding samples
						frag.EncOptimize = seg.EncOptimize
						if err := frag.Encode(io.Discard); err != nil {
							return nil, fmt.Errorf("Fragment.Encode between additions: %w", err)
						}
						if !strings.Contains(fr.Mode, "/encoded-between") {
							fr.Mode += "/encoded-between"
						}
						if sr.Optimize {
							// recorded finding: trun optimisation at an encode is not revised when samples are added afterwards
							r.ClassTag = ":samples-added-after-optimised-encode"
							r.Probe("samples-added-after-optimised-encode")
						}
						r.Event("encode-between", ti)
						r.Probe("fragment-encoded-between-additions")
					}
				case "meta":
					anyMeta = true
					k := 1
					if !multi && t.Chance(300) {
						k = 1 + t.Draw(left[ti])
					}
					if k > 1 {
						ss := scratch[len(scratch):len(scratch)]
						if t.Bool() || len(scratch)+k > cap(scratch) {
							ss = scratch[:0] // overwrite the previous batch
						}
						first := nextDts[ti]
						for j := 0; j < k; j++ {
							rec := newRec(ti)
							ss = append(ss, toSample(rec))
							payload = append(payload, rec.Data...)
						}
						frag.AddSamples(ss, first)
						scratch = scratch[:len(ss)+(cap(scratch)-cap(ss))]
						r.Event("AddSamples", ti, k)
					} else {
						rec := newRec(ti)
						payload = append(payload, rec.Data...)
						if !multi && t.Bool() {
							frag.AddSample(toSample(rec), rec.Dts)
							r.Event("AddSample", ti)
						} else {
							if err := frag.AddSampleToTrack(toSample(rec), id, rec.Dts); err != nil {
								return nil, fmt.Errorf("AddSampleToTrack: %w", err)
							}
							r.Event("AddSampleToTrack", ti)
						}
					}
					left[ti] -= k
					total -= k
				case "interval":
					if fr.Mode == "interval+full" && intervalDone && (singles || t.Bool()) {
						singles = true // intervals after single samples are refused by the library (documented by a panic)
						// the rest of this fragment's samples are added one by one after sample intervals
						rec := newRec(ti)
						frag.AddFullSample(mp4.FullSample{Sample: toSample(rec), DecodeTime: rec.Dts, Data: rec.Data})
						r.Event("AddFullSample(after interval)", ti)
						left[ti]--
						total--
						continue
					}
					k := 1 + t.Draw(left[ti])
					si := mp4.SampleInterval{FirstDecodeTime: nextDts[ti]}
					si.Samples = scratch[len(scratch):len(scratch)]
					if t.Bool() || len(scratch)+k > cap(scratch) {
						si.Samples = scratch[:0]
					}
					for j := 0; j < k; j++ {
						rec := newRec(ti)
						si.Samples = append(si.Samples, toSample(rec))
						si.Data = append(si.Data, rec.Data...)
					}
					scratch = scratch[:len(si.Samples)+(cap(scratch)-cap(si.Samples))]
					si.Size = uint32(len(si.Data))
					if err := frag.AddSampleInterval(si); err != nil {
						return nil, fmt.Errorf("AddSampleInterval: %w", err)
					}
					intervalDone = true
					r.Event("AddSampleInterval", ti, k)
					left[ti] -= k
					total -= k
				}
			}
			if o.SplitTruns && !multi && mode == "full" && t.Chance(250) {
				traf := frag.Moof.Traf
				if tr := traf.Trun; tr != nil && len(traf.Truns) == 1 && len(tr.Samples) >= 2 {
					k := 1 + t.Draw(len(tr.Samples)-1)
					tr2 := mp4.CreateTrun(1) // written second
					tr2.AddSamples(append([]mp4.Sample(nil), tr.Samples[k:]...))
					tr.Samples = tr.Samples[:k]
					_ = traf.AddChild(tr2)
					fr.Mode += "/2truns"
					r.Event("split-trun", k)
				}
			}
			for ti := range fr.To {
				fr.To[ti] = len(p.Log[ti])
			}
			// event messages in front of the moof (part of the fragment), also where other foreign boxes are not wanted
			if o.EmsgOnly && !o.Foreign && t.Chance(300) {
				frag.AddEmsg(makeEmsg(t))
				fr.Foreign = append(fr.Foreign, "top:emsg")
			}
			// foreign boxes in front of the moof
			if o.Foreign && t.Chance(350) {
				n := 1 + t.Draw(2)
				for j := 0; j < n; j++ {
					switch t.Draw(3) {
					case 0:
						frag.AddEmsg(makeEmsg(t))
						fr.Foreign = append(fr.Foreign, "top:emsg")
					case 1:
						prft := mp4.CreatePrftBox(byte(t.Draw(2)), 0, 1, mp4.NTP64(t.Draw(1<<30)), uint64(t.Draw(1<<20)))
						frag.Children = append([]mp4.Box{prft}, frag.Children...)
						frag.Prft = prft
						fr.Foreign = append(fr.Foreign, "top:prft")
					default:
						b, name := foreignBox(t, rnd, "top")
						frag.Children = append([]mp4.Box{b}, frag.Children...)
						fr.Foreign = append(fr.Foreign, "top:"+name)
					}
				}
			}
			seg.AddFragment(frag)
			sr.Frags = append(sr.Frags, fr)
			sr.Objs = append(sr.Objs, frag)
			payloads = append(payloads, payload)
			r.Logf("packager: seg %d frag %d seq=%d mode=%s counts=%v foreign=%v", si, fi, fr.Seq, fr.Mode, counts, fr.Foreign)
		}
		// ---- emit the segment
		var out bytes.Buffer
		if anyMeta {
			// payload written separately after each fragment, as examples/segmenter does
			if seg.Styp != nil {
				if err := seg.Styp.Encode(&out); err != nil {
					return nil, err
				}
			}
			for fi, frag := range seg.Fragments {
				frag.EncOptimize = seg.EncOptimize
				if sr.ViaSW {
					sw := bits.NewFixedSliceWriter(int(frag.Size()) + 64)
					if err := frag.EncodeSW(sw); err != nil {
						return nil, fmt.Errorf("fragment EncodeSW: %w", err)
					}
					out.Write(sw.Bytes())
				} else if err := frag.Encode(&out); err != nil {
					return nil, fmt.Errorf("fragment Encode: %w", err)
				}
				out.Write(payloads[fi])
			}
		} else if sr.ViaSW {
			// Size() before encoding may change with optimisation: leave room
			sw := bits.NewFixedSliceWriter(int(seg.Size()) + 64)
			if err := seg.EncodeSW(sw); err != nil {
				return nil, fmt.Errorf("segment EncodeSW: %w", err)
			}
			out.Write(sw.Bytes())
		} else if err := seg.Encode(&out); err != nil {
			return nil, fmt.Errorf("segment Encode: %w", err)
		}
		sr.Bytes = out.Bytes()
		sr.Seg = seg
		if o.WriteFaults && !anyMeta && t.Chance(150) {
			// the same segment written once more to an origin that refuses one write (and accepts the later ones):
			// the packager must hear about it, or it will publish a segment with bytes missing
			probe := sim.NewSink(nil)
			if seg.Encode(probe) == nil && probe.Writes > 0 {
				fs := sim.NewSink(r)
				fs.FailAtOp = 1 + t.Draw(probe.Writes)
				if err := seg.Encode(fs); err == nil && fs.Failed && p.SwallowedWriteError == "" {
					p.SwallowedWriteError = fmt.Sprintf("segment %d (fragments %v): Encode reported success although write #%d of %d was refused (%d of %d bytes arrived)", si, fragModes(sr), fs.FailAtOp, probe.Writes, len(fs.Buf), len(probe.Buf))
				}
			}
		}
		p.Segs = append(p.Segs, sr)
		r.Event("segment", btoi(sr.HasStyp), btoi(sr.Optimize), btoi(sr.ViaSW), len(sr.Frags))
		r.Logf("packager: seg %d emitted %d bytes styp=%v optimize=%v viaSW=%v separatePayload=%v", si, len(sr.Bytes), sr.HasStyp, sr.Optimize, sr.ViaSW, anyMeta)
	}
	return p, nil
}

func btoi(b bool) int {
	if b {
		return 1
	}
	return 0
}

// Stream concatenates init and segments in production order.
func (p *Production) Stream() []byte {
	out := append([]byte(nil), p.InitBytes...)
	for _, s := range p.Segs {
		out = append(out, s.Bytes...)
	}
	return out
}
