//go:build go1.21

package work

import (
	"fmt"

	"github.com/Eyevinn/mp4ff/internal/vsim/sim"
)

// bitWriter writes an RBSP bit by bit (H.264 7.2) and adds emulation prevention bytes on output.
type bitWriter struct {
	bytes []byte
	cur   byte
	n     uint
}

func (w *bitWriter) bit(b uint) {
	w.cur = w.cur<<1 | byte(b&1)
	w.n++
	if w.n == 8 {
		w.bytes = append(w.bytes, w.cur)
		w.cur, w.n = 0, 0
	}
}
func (w *bitWriter) u(v uint, n int) {
	for i := n - 1; i >= 0; i-- {
		w.bit(v >> uint(i))
	}
}
func (w *bitWriter) ue(v uint) { // Exp-Golomb, H.264 9.1
	v++
	n := 0
	for x := v; x > 1; x >>= 1 {
		n++
	}
	w.u(0, n)
	w.u(v, n+1)
}
func (w *bitWriter) trailing() {
	w.bit(1)
	for w.n != 0 {
		w.bit(0)
	}
}

// ebsp inserts emulation prevention bytes (0x03 after two zero bytes when the next byte is <= 3).
func ebsp(rbsp []byte) []byte {
	var out []byte
	zeros := 0
	for _, b := range rbsp {
		if zeros >= 2 && b <= 3 {
			out = append(out, 3)
			zeros = 0
		}
		out = append(out, b)
		if b == 0 {
			zeros++
		} else {
			zeros = 0
		}
	}
	return out
}

// DrawAVCSPS writes a seeded, well-formed AVC sequence parameter set NAL unit (ISO/IEC 14496-10 7.3.2.1.1, no VUI,
// no scaling lists, seq_parameter_set_id 0) and returns the luma picture size it codes after cropping, computed from
// 7.4.2.1.1 (CropUnitX/CropUnitY by ChromaArrayType, frame_mbs_only_flag): an independent statement of what the
// dimensions of a sample entry built from it must be.
func DrawAVCSPS(t *sim.Tape) (nalu []byte, width, height int, chromaFormat, bitDepthLuma8, bitDepthChroma8 int, desc string) {
	w := &bitWriter{}
	profile := []uint{66, 77, 88, 100, 110, 122, 244, 44}[t.Draw(8)]
	w.u(profile, 8)
	w.u(uint(t.Draw(4))<<6, 8) // constraint flags
	w.u([]uint{30, 31, 40, 41, 51}[t.Draw(5)], 8)
	w.ue(0) // seq_parameter_set_id
	chroma := uint(1)
	sepPlane := uint(0)
	switch profile {
	case 100, 110, 122, 244, 44:
		chroma = uint(t.Draw(4))
		w.ue(chroma)
		if chroma == 3 {
			sepPlane = uint(t.Draw(2))
			w.bit(sepPlane)
		}
		bitDepthLuma8, bitDepthChroma8 = t.Draw(3), t.Draw(3)
		w.ue(uint(bitDepthLuma8))   // bit_depth_luma_minus8
		w.ue(uint(bitDepthChroma8)) // bit_depth_chroma_minus8
		w.bit(0)                    // qpprime_y_zero_transform_bypass_flag
		w.bit(0)                    // seq_scaling_matrix_present_flag
	}
	w.ue(uint(t.Draw(5))) // log2_max_frame_num_minus4
	if t.Bool() {
		w.ue(0) // pic_order_cnt_type 0
		w.ue(uint(t.Draw(5)))
	} else {
		w.ue(2)
	}
	w.ue(uint(1 + t.Draw(4))) // max_num_ref_frames
	w.bit(uint(t.Draw(2)))    // gaps_in_frame_num_value_allowed_flag
	wMbs := 1 + t.Draw(120)
	hUnits := 1 + t.Draw(68)
	w.ue(uint(wMbs - 1))
	w.ue(uint(hUnits - 1))
	fmo := uint(1)
	if t.Chance(300) {
		fmo = 0
	}
	w.bit(fmo)
	if fmo == 0 {
		w.bit(uint(t.Draw(2))) // mb_adaptive_frame_field_flag
	}
	w.bit(1) // direct_8x8_inference_flag
	width = 16 * wMbs
	height = 16 * hUnits * int(2-fmo)
	crop := t.Chance(600)
	var l, rr, tp, bt int
	if crop {
		// 7.4.2.1.1: ChromaArrayType is 0 for monochrome and for separately coded colour planes
		cux, cuy := 1, int(2-fmo)
		if chroma != 0 && sepPlane == 0 {
			subW, subH := map[uint]int{1: 2, 2: 2, 3: 1}[chroma], map[uint]int{1: 2, 2: 1, 3: 1}[chroma]
			cux, cuy = subW, subH*int(2-fmo)
		}
		l, rr, tp, bt = t.Draw(4), t.Draw(4), t.Draw(4), t.Draw(6)
		for cux*(l+rr) >= width {
			l, rr = l/2, rr/2
		}
		for cuy*(tp+bt) >= height {
			tp, bt = tp/2, bt/2
		}
		w.bit(1)
		w.ue(uint(l))
		w.ue(uint(rr))
		w.ue(uint(tp))
		w.ue(uint(bt))
		width -= cux * (l + rr)
		height -= cuy * (tp + bt)
	} else {
		w.bit(0)
	}
	w.bit(0) // vui_parameters_present_flag
	w.trailing()
	nalu = append([]byte{0x67}, ebsp(w.bytes)...)
	chromaFormat = int(chroma)
	desc = fmt.Sprintf("profile=%d chroma=%d/%d frame_mbs_only=%d %dx%d mbs/units crop=%v(%d,%d,%d,%d) -> %dx%d", profile, chroma, sepPlane, fmo, wMbs, hUnits, crop, l, rr, tp, bt, width, height)
	return
}

// DrawHEVCSPS writes a seeded, well-formed HEVC sequence parameter set NAL unit (ISO/IEC 23008-2 7.3.2.2, with
// profile_tier_level for 1-3 temporal sub-layers incl. sub-layer profile/level info, no VUI, no extensions) and
// returns the cropped luma picture size from 7.4.3.2.1 (conformance window in units of SubWidthC / SubHeightC).
// HEVCSPSInfo: what a harness-written HEVC SPS codes (the values a decoder configuration record has to repeat).
type HEVCSPSInfo struct {
	Tier, Profile, Level     int
	Chroma, BitDepthLuma8    int
	BitDepthChroma8, SubLays int
}

func DrawHEVCSPS(t *sim.Tape) (nalu []byte, width, height int, info HEVCSPSInfo, desc string) {
	w := &bitWriter{}
	w.u(0, 4) // sps_video_parameter_set_id
	msl := uint(t.Draw(3))
	w.u(msl, 3) // sps_max_sub_layers_minus1
	w.bit(1)    // sps_temporal_id_nesting_flag
	// profile_tier_level(1, msl)
	w.u(0, 2)
	tier := uint(t.Draw(2))
	w.bit(tier)
	prof := uint(1 + t.Draw(2))
	w.u(prof, 5)
	w.u(uint(0x60000000>>(prof-1)), 32) // compatibility flags
	w.u(0x9000, 16)                     // progressive + frame-only, rest of the 48 constraint bits zero
	w.u(0, 32)
	level := []uint{93, 120, 123, 150}[t.Draw(4)]
	w.u(level, 8) // general_level_idc
	type sl struct{ prof, lvl uint }
	sls := make([]sl, msl)
	for i := range sls {
		sls[i] = sl{uint(t.Draw(2)), uint(t.Draw(2))}
		w.bit(sls[i].prof)
		w.bit(sls[i].lvl)
	}
	if msl > 0 {
		for i := msl; i < 8; i++ {
			w.u(0, 2) // reserved_zero_2bits
		}
	}
	for _, s := range sls {
		if s.prof == 1 {
			w.u(0, 2)
			w.bit(0)
			w.u(prof, 5)
			w.u(uint(0x60000000>>(prof-1)), 32)
			w.u(0x9000, 16)
			w.u(0, 32)
		}
		if s.lvl == 1 {
			w.u([]uint{63, 90, 93, 120}[t.Draw(4)], 8)
		}
	}
	w.ue(0) // sps_seq_parameter_set_id
	chroma := uint(t.Draw(4))
	sep := uint(0)
	w.ue(chroma)
	if chroma == 3 {
		sep = uint(t.Draw(2))
		w.bit(sep)
	}
	width, height = 8*(1+t.Draw(480)), 8*(1+t.Draw(272))
	w.ue(uint(width))
	w.ue(uint(height))
	crop := t.Chance(600)
	var l, rr, tp, bt int
	if crop {
		subW, subH := 1, 1
		if sep == 0 {
			subW, subH = map[uint]int{0: 1, 1: 2, 2: 2, 3: 1}[chroma], map[uint]int{0: 1, 1: 2, 2: 1, 3: 1}[chroma]
		}
		l, rr, tp, bt = t.Draw(4), t.Draw(4), t.Draw(4), t.Draw(6)
		for subW*(l+rr) >= width {
			l, rr = l/2, rr/2
		}
		for subH*(tp+bt) >= height {
			tp, bt = tp/2, bt/2
		}
		w.bit(1)
		w.ue(uint(l))
		w.ue(uint(rr))
		w.ue(uint(tp))
		w.ue(uint(bt))
		width -= subW * (l + rr)
		height -= subH * (tp + bt)
	} else {
		w.bit(0)
	}
	bdl, bdc := uint(t.Draw(3)), uint(t.Draw(3))
	w.ue(bdl) // bit_depth_luma_minus8
	w.ue(bdc) // bit_depth_chroma_minus8
	info = HEVCSPSInfo{Tier: int(tier), Profile: int(prof), Level: int(level), Chroma: int(chroma), BitDepthLuma8: int(bdl), BitDepthChroma8: int(bdc), SubLays: int(msl) + 1}
	w.ue(uint(t.Draw(5))) // log2_max_pic_order_cnt_lsb_minus4
	ord := uint(t.Draw(2))
	w.bit(ord) // sps_sub_layer_ordering_info_present_flag
	first := msl
	if ord == 1 {
		first = 0
	}
	for i := first; i <= msl; i++ {
		w.ue(uint(1 + t.Draw(4)))
		w.ue(uint(t.Draw(2)))
		w.ue(uint(t.Draw(3)))
	}
	w.ue(0)                   // log2_min_luma_coding_block_size_minus3
	w.ue(uint(1 + t.Draw(3))) // log2_diff_max_min_luma_coding_block_size
	w.ue(0)                   // log2_min_luma_transform_block_size_minus2
	w.ue(uint(1 + t.Draw(3))) // log2_diff_max_min_luma_transform_block_size
	w.ue(uint(t.Draw(3)))     // max_transform_hierarchy_depth_inter
	w.ue(uint(t.Draw(3)))     // max_transform_hierarchy_depth_intra
	w.bit(0)                  // scaling_list_enabled_flag
	w.bit(uint(t.Draw(2)))    // amp_enabled_flag
	w.bit(uint(t.Draw(2)))    // sample_adaptive_offset_enabled_flag
	w.bit(0)                  // pcm_enabled_flag
	w.ue(0)                   // num_short_term_ref_pic_sets
	w.bit(0)                  // long_term_ref_pics_present_flag
	w.bit(uint(t.Draw(2)))    // sps_temporal_mvp_enabled_flag
	w.bit(uint(t.Draw(2)))    // strong_intra_smoothing_enabled_flag
	w.bit(0)                  // vui_parameters_present_flag
	w.bit(0)                  // sps_extension_present_flag
	w.trailing()
	nalu = append([]byte{0x42, 0x01}, ebsp(w.bytes)...)
	desc = fmt.Sprintf("sub-layers=%d tier=%d profile=%d level=%d chroma=%d/%d depths=8+%d/8+%d crop=%v(%d,%d,%d,%d) -> %dx%d", msl+1, tier, prof, level, chroma, sep, bdl, bdc, crop, l, rr, tp, bt, width, height)
	return
}
