//go:build go1.21

package work

import (
	"fmt"

	"github.com/Eyevinn/mp4ff/internal/vsim/ref"
)

// SampleSource is a real clear track taken from the corpus (read by the independent demuxer):
// an init segment and the ordered samples of one track.
type SampleSource struct {
	Name      string
	Codec     string // sample entry four-cc
	Media     string
	InitBytes []byte
	TrackID   uint32
	Timescale uint32
	Samples   []SampleRec
}

var sources []*SampleSource

// sourcePairs: init file + media file (base names in the corpus) forming a clear fragmented track.
var sourcePairs = [][2]string{
	{"V300/init.mp4", "V300/1.m4s"},
	{"hvc1_init.mp4", "hvc1_seg_1.m4s"},
	{"A48/init.mp4", "A48/1.m4s"},
}

func byNameAny(name string) []*CorpusFile {
	if c := ByName(name); c != nil {
		return []*CorpusFile{c}
	}
	return nil
}

// LoadSources builds the real-sample sources.
func LoadSources() ([]*SampleSource, error) {
	if sources != nil {
		return sources, nil
	}
	if _, err := LoadCorpus(); err != nil {
		return nil, err
	}
	for _, pr := range sourcePairs {
		var done bool
		for _, ci := range byNameAny(pr[0]) {
			for _, cm := range byNameAny(pr[1]) {
				if done {
					continue
				}
				stream := append(append([]byte(nil), ci.Data...), cm.Data...)
				d, err := ref.DemuxStream(stream, nil)
				if err != nil || d.Movie == nil || len(d.Movie.Tracks) != 1 || len(d.Fragments) == 0 {
					continue
				}
				tr := d.Movie.Tracks[0]
				ss := d.TrackSamples(tr.ID)
				if len(ss) < 4 {
					continue
				}
				src := &SampleSource{Name: pr[1], InitBytes: ci.Data, TrackID: tr.ID, Timescale: tr.Timescale}
				switch tr.Handler {
				case "vide":
					src.Media = "video"
				case "soun":
					src.Media = "audio"
				}
				moov := ref.FindTop(d.Top, "moov")
				if stsd := moov.Path("trak", "mdia", "minf", "stbl", "stsd"); stsd != nil && len(stsd.Children) > 0 {
					src.Codec = stsd.Children[0].Type
				}
				for _, s := range ss {
					b := s.Bytes(stream)
					if b == nil {
						return nil, fmt.Errorf("source %s: sample outside stream", pr[1])
					}
					src.Samples = append(src.Samples, SampleRec{Data: append([]byte(nil), b...), Dur: s.Dur, Flags: s.Flags, Cto: s.Cto, Dts: s.Dts})
				}
				sources = append(sources, src)
				done = true
			}
		}
		if !done {
			return nil, fmt.Errorf("source pair %v not usable", pr)
		}
	}
	return sources, nil
}
