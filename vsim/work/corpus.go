//go:build go1.21

// Package work holds the workloads: corpus, packager node, muxer node.
package work

import (
	"os"
	"path/filepath"
	"sort"
	"strings"

	"github.com/Eyevinn/mp4ff/internal/vsim/ref"
	"github.com/Eyevinn/mp4ff/internal/vsim/sim"
)

// CorpusFile is one container file from /repo/**/testdata.
type CorpusFile struct {
	Path        string // relative to repo
	Name        string
	Aliases     []string // other paths with identical content
	Data        []byte
	Top         []*ref.Box
	HasMoov     bool
	HasMoof     bool
	HasMdat     bool
	Progressive bool // moov with samples and no moof
}

var corpus []*CorpusFile

var containerExt = map[string]bool{".mp4": true, ".m4s": true, ".cmfv": true, ".cmfa": true, ".isma": true, ".ismv": true, ".ismt": true}

// LoadCorpus reads every container file below the repo's testdata directories, once.
// Files are ordered by path so that indices are stable.
func LoadCorpus() ([]*CorpusFile, error) {
	if corpus != nil {
		return corpus, nil
	}
	root := sim.RepoDir()
	var paths []string
	err := filepath.Walk(root, func(p string, info os.FileInfo, err error) error {
		if err != nil {
			return nil
		}
		if info.IsDir() {
			if info.Name() == ".git" || info.Name() == "fuzz" {
				return filepath.SkipDir
			}
			return nil
		}
		if !strings.Contains(p, "/testdata/") {
			return nil
		}
		if containerExt[filepath.Ext(p)] {
			paths = append(paths, p)
		}
		return nil
	})
	if err != nil {
		return nil, err
	}
	sort.Strings(paths)
	seen := map[string]*CorpusFile{}
	for _, p := range paths {
		data, err := os.ReadFile(p)
		if err != nil {
			return nil, err
		}
		key := string(data)
		rel, _ := filepath.Rel(root, p)
		if prev := seen[key]; prev != nil { // identical copies in several testdata dirs
			prev.Aliases = append(prev.Aliases, rel)
			continue
		}
		cf := &CorpusFile{Path: rel, Name: filepath.Base(p), Data: data}
		seen[key] = cf
		top, err := ref.Walk(data, 0, int64(len(data)), true)
		if err != nil {
			continue // not a well-formed box sequence: not corpus material
		}
		cf.Top = top
		for _, b := range top {
			switch b.Type {
			case "moov":
				cf.HasMoov = true
			case "moof":
				cf.HasMoof = true
			case "mdat":
				cf.HasMdat = true
			}
		}
		moov := ref.FindTop(top, "moov")
		cf.Progressive = moov != nil && !cf.HasMoof && cf.HasMdat && moov.Find("mvex") == nil
		corpus = append(corpus, cf)
	}
	return corpus, nil
}

// Select returns corpus files satisfying pred.
func Select(pred func(*CorpusFile) bool) []*CorpusFile {
	var out []*CorpusFile
	for _, c := range corpus {
		if pred(c) {
			out = append(out, c)
		}
	}
	return out
}

// ByName finds a corpus file by base name or path suffix (aliases included).
func ByName(name string) *CorpusFile {
	for _, c := range corpus {
		if c.Name == name || strings.HasSuffix(c.Path, "/"+name) {
			return c
		}
		for _, a := range c.Aliases {
			if strings.HasSuffix(a, "/"+name) {
				return c
			}
		}
	}
	return nil
}
