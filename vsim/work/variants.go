//go:build go1.21

package work

import (
	"encoding/binary"
	"fmt"

	"github.com/Eyevinn/mp4ff/internal/vsim/ref"
)

// LayoutVariant rewrites a progressive file into another legal layout by byte surgery guided
// by the independent walker: 64-bit mdat header, mdat moved before or after moov, mdat as the
// last bytes of the file, free box inserted before mdat. Chunk offsets are patched. No mp4ff code involved.
type LayoutVariant struct {
	LargeMdat  bool
	MdatFirst  bool // mdat directly after ftyp, before moov
	MdatLast   bool // mdat moved to the very end
	FreePad    int  // size of a free box put right before mdat (0 = none; >=8)
	FreeLarge  bool // that free box uses the 64-bit size form (needs FreePad >= 16)
	EmptyMdat  int  // extra EMPTY mdat box (legal): 0 none, 1 directly after the real one, 2 directly before it, 3 at the very end
	EmptyLarge bool // the extra empty mdat uses the 64-bit size form (16-byte header, no payload)
}

func (v LayoutVariant) String() string {
	return fmt.Sprintf("large=%v mdatFirst=%v mdatLast=%v free=%d/%v emptyMdat=%d/%v", v.LargeMdat, v.MdatFirst, v.MdatLast, v.FreePad, v.FreeLarge, v.EmptyMdat, v.EmptyLarge)
}

func (v LayoutVariant) emptyMdat() []byte {
	if v.EmptyLarge {
		return []byte{0, 0, 0, 1, 'm', 'd', 'a', 't', 0, 0, 0, 0, 0, 0, 0, 16}
	}
	return []byte{0, 0, 0, 8, 'm', 'd', 'a', 't'}
}

// ApplyLayout returns the rewritten file.
func ApplyLayout(data []byte, v LayoutVariant) ([]byte, error) {
	top, err := ref.Walk(data, 0, int64(len(data)), true)
	if err != nil {
		return nil, err
	}
	var mdat, moov *ref.Box
	for _, b := range top {
		switch b.Type {
		case "mdat":
			if b.Size > b.Hdr {
				if mdat != nil {
					return nil, fmt.Errorf("variant: more than one non-empty mdat")
				}
				mdat = b
			}
		case "moov":
			moov = b
		}
	}
	if mdat == nil || moov == nil {
		return nil, fmt.Errorf("variant: need moov and mdat")
	}
	// new order
	var order []*ref.Box
	for _, b := range top {
		if b != mdat {
			order = append(order, b)
		}
	}
	insertAt := len(order)
	switch {
	case v.MdatFirst:
		insertAt = 0
		for i, b := range order {
			if b.Type == "ftyp" {
				insertAt = i + 1
			}
		}
	case v.MdatLast:
		insertAt = len(order)
	default:
		// keep relative position
		insertAt = 0
		for i, b := range order {
			if b.Start < mdat.Start {
				insertAt = i + 1
			}
		}
	}
	payload := data[mdat.Payload():mdat.End()]
	var hdr []byte
	if v.LargeMdat {
		hdr = make([]byte, 16)
		binary.BigEndian.PutUint32(hdr, 1)
		copy(hdr[4:], "mdat")
		binary.BigEndian.PutUint64(hdr[8:], uint64(16+len(payload)))
	} else {
		hdr = make([]byte, 8)
		binary.BigEndian.PutUint32(hdr, uint32(8+len(payload)))
		copy(hdr[4:], "mdat")
	}
	out := make([]byte, 0, len(data)+64)
	var moovOutStart int64 = -1
	var newPayloadStart int64
	emitMdat := func() {
		if v.FreePad >= 8 {
			fb := make([]byte, v.FreePad)
			binary.BigEndian.PutUint32(fb, uint32(v.FreePad))
			copy(fb[4:], "free")
			if v.FreeLarge && v.FreePad >= 16 {
				binary.BigEndian.PutUint32(fb, 1)
				binary.BigEndian.PutUint64(fb[8:], uint64(v.FreePad))
			}
			out = append(out, fb...)
		}
		empty := v.emptyMdat()
		if v.EmptyMdat == 2 {
			out = append(out, empty...)
		}
		out = append(out, hdr...)
		newPayloadStart = int64(len(out))
		out = append(out, payload...)
		if v.EmptyMdat == 1 {
			out = append(out, empty...)
		}
	}
	for i, b := range order {
		if i == insertAt {
			emitMdat()
		}
		if b == moov {
			moovOutStart = int64(len(out))
		}
		out = append(out, data[b.Start:b.End()]...)
	}
	if insertAt == len(order) {
		emitMdat()
	}
	if v.EmptyMdat == 3 {
		out = append(out, v.emptyMdat()...)
	}
	delta := newPayloadStart - mdat.Payload()
	// patch chunk offsets inside the copied moov
	for _, b := range ref.Flatten([]*ref.Box{moov}) {
		if b.Type != "stco" && b.Type != "co64" {
			continue
		}
		p := moovOutStart + (b.Payload() - moov.Start)
		n := int(binary.BigEndian.Uint32(out[p+4:]))
		p += 8
		for i := 0; i < n; i++ {
			if b.Type == "stco" {
				o := int64(binary.BigEndian.Uint32(out[p:])) + delta
				if o < 0 || o > 0xffffffff {
					return nil, fmt.Errorf("variant: stco overflow")
				}
				binary.BigEndian.PutUint32(out[p:], uint32(o))
				p += 4
			} else {
				o := int64(binary.BigEndian.Uint64(out[p:])) + delta
				binary.BigEndian.PutUint64(out[p:], uint64(o))
				p += 8
			}
		}
	}
	return out, nil
}

// InsertMoofPssh returns a copy of a fragmented stream in which every moof carries two pssh boxes of different
// sizes (version 0 and version 1) right after its mfhd, as key-rotation content does. Everything that counts bytes
// from the start of the moof is moved along: moof size, trun data_offset, saio offsets. Streams with a top-level
// sidx/mfra (whose byte counts would have to follow) or explicit tfhd base_data_offset are refused.
func InsertMoofPssh(data []byte) ([]byte, error) {
	top, err := ref.Walk(data, 0, int64(len(data)), true)
	if err != nil {
		return nil, err
	}
	sys := []byte{0xed, 0xef, 0x8b, 0xa9, 0x79, 0xd6, 0x4a, 0xce, 0xa3, 0xc8, 0x27, 0xdc, 0xd5, 0x1d, 0x21, 0xed}
	mk := func(ver byte, kids int, dataLen int) []byte {
		pl := []byte{ver, 0, 0, 0}
		pl = append(pl, sys...)
		if ver > 0 {
			pl = append(pl, 0, 0, 0, byte(kids))
			for i := 0; i < kids; i++ {
				pl = append(pl, make([]byte, 16)...)
			}
		}
		pl = append(pl, 0, 0, 0, byte(dataLen))
		for i := 0; i < dataLen; i++ {
			pl = append(pl, byte(i))
		}
		b := make([]byte, 8, 8+len(pl))
		binary.BigEndian.PutUint32(b, uint32(8+len(pl)))
		copy(b[4:], "pssh")
		return append(b, pl...)
	}
	ins := append(mk(0, 0, 11), mk(1, 1, 60)...)
	S := int64(len(ins))
	var out []byte
	n := 0
	for _, b := range top {
		if b.Type == "sidx" || b.Type == "mfra" {
			return nil, fmt.Errorf("variant: stream has a top-level %s", b.Type)
		}
		if b.Type != "moof" {
			out = append(out, data[b.Start:b.End()]...)
			continue
		}
		mfhd := b.Find("mfhd")
		if mfhd == nil || b.Hdr != 8 {
			return nil, fmt.Errorf("variant: moof without mfhd")
		}
		base := int64(len(out)) - b.Start // where this moof lands in out
		out = append(out, data[b.Start:mfhd.End()]...)
		out = append(out, ins...)
		out = append(out, data[mfhd.End():b.End()]...)
		binary.BigEndian.PutUint32(out[base+b.Start:], uint32(b.Size+S))
		for _, traf := range b.FindAll("traf") {
			if tfhd := traf.Find("tfhd"); tfhd != nil && data[tfhd.Payload()+3]&0x01 != 0 {
				return nil, fmt.Errorf("variant: tfhd with base_data_offset")
			}
			for _, c := range traf.Children {
				at := base + S + c.Payload() // children of traf lie after the insertion point
				switch c.Type {
				case "trun":
					if data[c.Payload()+3]&0x01 != 0 {
						v := int32(binary.BigEndian.Uint32(out[at+8:])) + int32(S)
						binary.BigEndian.PutUint32(out[at+8:], uint32(v))
					}
				case "saio":
					p := at + 4
					if data[c.Payload()+3]&0x01 != 0 {
						p += 8
					}
					cnt := int(binary.BigEndian.Uint32(out[p:]))
					p += 4
					for i := 0; i < cnt; i++ {
						if data[c.Payload()] == 0 {
							binary.BigEndian.PutUint32(out[p:], binary.BigEndian.Uint32(out[p:])+uint32(S))
							p += 4
						} else {
							binary.BigEndian.PutUint64(out[p:], binary.BigEndian.Uint64(out[p:])+uint64(S))
							p += 8
						}
					}
				}
			}
		}
		n++
	}
	if n == 0 {
		return nil, fmt.Errorf("variant: no moof")
	}
	return out, nil
}

// PadMdat returns a copy of a media segment (… moof mdat) whose mdat carries bytes no sample refers to: lead bytes in
// front of the first sample (every trun data_offset is moved along) and trail bytes after the last one. Legal: a
// trun's data_offset may point anywhere inside the media data box. Segments with tfhd base_data_offset are refused.
func PadMdat(seg []byte, lead, trail int) ([]byte, error) {
	top, err := ref.Walk(seg, 0, int64(len(seg)), true)
	if err != nil {
		return nil, err
	}
	out := append([]byte(nil), seg...)
	var moof *ref.Box
	for i := len(top) - 1; i >= 0; i-- {
		b := top[i]
		switch b.Type {
		case "mdat":
			if moof != nil || b.Hdr != 8 || i == 0 || top[i-1].Type != "moof" {
				return nil, fmt.Errorf("variant: unsupported layout")
			}
			pad := make([]byte, lead+trail)
			for j := range pad {
				pad[j] = 0xa5
			}
			nb := append([]byte(nil), out[:b.Payload()]...)
			nb = append(nb, pad[:lead]...)
			nb = append(nb, out[b.Payload():b.End()]...)
			nb = append(nb, pad[lead:]...)
			nb = append(nb, out[b.End():]...)
			binary.BigEndian.PutUint32(nb[b.Start:], uint32(b.Size)+uint32(lead+trail))
			out = nb
			moof = top[i-1]
			for _, traf := range moof.FindAll("traf") {
				if tfhd := traf.Find("tfhd"); tfhd != nil && seg[tfhd.Payload()+3]&0x01 != 0 {
					return nil, fmt.Errorf("variant: tfhd with base_data_offset")
				}
				for _, c := range traf.FindAll("trun") {
					if seg[c.Payload()+3]&0x01 != 0 {
						at := c.Payload() + 8
						binary.BigEndian.PutUint32(out[at:], uint32(int32(binary.BigEndian.Uint32(out[at:]))+int32(lead)))
					} else if lead > 0 {
						return nil, fmt.Errorf("variant: trun without data_offset")
					}
				}
			}
			moof = nil
		}
	}
	return out, nil
}

// DropSinf returns a copy of a file in which the protection scheme information box (sinf) of the sample entry of the
// k-th trak (0-based) is removed, with all enclosing sizes repaired: a protected sample entry type without the box
// that describes its protection (seen in damaged or hand-edited inits; the decoders must still agree on it).
func DropSinf(data []byte, k int) ([]byte, error) {
	units, err := ParseUnits(data)
	if err != nil {
		return nil, err
	}
	var moov *UNode
	for _, u := range units {
		if u.Type == "moov" {
			moov = u
		}
	}
	if moov == nil {
		return nil, fmt.Errorf("variant: no moov")
	}
	var trak *UNode
	n := 0
	for _, c := range moov.Children {
		if c.Type == "trak" {
			if n == k {
				trak = c
			}
			n++
		}
	}
	cur := trak
	for _, typ := range []string{"mdia", "minf", "stbl", "stsd"} {
		if cur == nil {
			break
		}
		var next *UNode
		for _, c := range cur.Children {
			if c.Type == typ {
				next = c
			}
		}
		cur = next
	}
	if cur == nil || len(cur.Children) == 0 {
		return nil, fmt.Errorf("variant: no sample entry in trak %d", k)
	}
	entry := cur.Children[0]
	kept := entry.Children[:0:0]
	dropped := false
	for _, c := range entry.Children {
		if c.Type == "sinf" && !dropped {
			dropped = true
			continue
		}
		kept = append(kept, c)
	}
	if !dropped {
		return nil, fmt.Errorf("variant: no sinf in trak %d", k)
	}
	entry.Children = kept
	return Serialize(units, true), nil
}

// SwapMoovChildren returns a copy of a file in which the k-th and (k+1)-th child of the moov box (0-based, counted
// behind the first child, which stays in front) have changed places: ISO/IEC 14496-12 does not prescribe the order of
// the children of moov, so e.g. [mvhd trak iods trak] is as legal as [mvhd iods trak trak]. No size changes, hence all
// chunk offsets stay valid. ok=false if the moov has fewer than three children.
func SwapMoovChildren(data []byte, k int) (out []byte, what string, ok bool) {
	top, err := ref.Walk(data, 0, int64(len(data)), true)
	if err != nil {
		return nil, "", false
	}
	for _, b := range top {
		if b.Type != "moov" || len(b.Children) < 3 {
			continue
		}
		i := 1 + k%(len(b.Children)-2)
		x, y := b.Children[i], b.Children[i+1]
		if x.End() != y.Start {
			return nil, "", false
		}
		out = append([]byte(nil), data[:x.Start]...)
		out = append(out, data[y.Start:y.End()]...)
		out = append(out, data[x.Start:x.End()]...)
		out = append(out, data[y.End():]...)
		return out, fmt.Sprintf("moov children %d,%d swapped (%s<->%s)", i, i+1, x.Type, y.Type), true
	}
	return nil, "", false
}
