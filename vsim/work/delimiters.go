//go:build go1.21

package work

import "encoding/binary"

// Raw delimiter boxes written straight from ISO/IEC 14496-12 (no mp4ff code), used by the
// producer node to mark segment boundaries in an emitted stream.

func be32(v uint32) []byte { var b [4]byte; binary.BigEndian.PutUint32(b[:], v); return b[:] }
func be64(v uint64) []byte { var b [8]byte; binary.BigEndian.PutUint64(b[:], v); return b[:] }
func be16(v uint16) []byte { var b [2]byte; binary.BigEndian.PutUint16(b[:], v); return b[:] }

func box(typ string, payload []byte) []byte {
	out := append(be32(uint32(8+len(payload))), typ...)
	return append(out, payload...)
}

// RawStyp makes a styp box.
func RawStyp() []byte {
	return box("styp", append(append([]byte("msdh"), be32(0)...), []byte("msdhmsix")...))
}

// SidxRefSpec is one reference of a raw sidx.
type SidxRefSpec struct {
	Size uint32
	Dur  uint32
	Type uint32 // 0: media, 1: another sidx (hierarchical index)
}

// RawSidx makes a segment index box (version 0 or 1) whose anchor is the first byte after the box plus firstOffset.
func RawSidx(version byte, refID, timescale uint32, ept, firstOffset uint64, refs []SidxRefSpec) []byte {
	p := []byte{version, 0, 0, 0}
	p = append(p, be32(refID)...)
	p = append(p, be32(timescale)...)
	if version == 0 {
		p = append(p, be32(uint32(ept))...)
		p = append(p, be32(uint32(firstOffset))...)
	} else {
		p = append(p, be64(ept)...)
		p = append(p, be64(firstOffset)...)
	}
	p = append(p, be16(0)...)
	p = append(p, be16(uint16(len(refs)))...)
	for _, r := range refs {
		p = append(p, be32(r.Type<<31|r.Size&0x7fffffff)...)
		p = append(p, be32(r.Dur)...)
		p = append(p, be32(1<<31|1<<28)...)
	}
	return box("sidx", p)
}

// RawMfra makes mfra(tfra v1 + mfro) with one entry per given moof offset.
func RawMfra(trackID uint32, times, moofOffsets []uint64) []byte {
	return RawMfraOpt(trackID, times, moofOffsets, 1, 0)
}

// RawMfraOpt: tfra version 0 (32-bit time / offset) or 1 (64-bit), and the three "length_size_of_*" codes packed
// as in the box (2 bits each: traf number, trun number, sample number; field widths 1..4 bytes).
func RawMfraOpt(trackID uint32, times, moofOffsets []uint64, version byte, lengthSizes uint32) []byte {
	t := []byte{version, 0, 0, 0}
	t = append(t, be32(trackID)...)
	t = append(t, be32(lengthSizes&0x3f)...)
	t = append(t, be32(uint32(len(moofOffsets)))...)
	num := func(code uint32) []byte { // the value 1 in a field of code+1 bytes
		b := make([]byte, code+1)
		b[code] = 1
		return b
	}
	for i := range moofOffsets {
		if version == 1 {
			t = append(t, be64(times[i])...)
			t = append(t, be64(moofOffsets[i])...)
		} else {
			t = append(t, be32(uint32(times[i]))...)
			t = append(t, be32(uint32(moofOffsets[i]))...)
		}
		t = append(t, num(lengthSizes>>4&3)...)
		t = append(t, num(lengthSizes>>2&3)...)
		t = append(t, num(lengthSizes&3)...)
	}
	tfra := box("tfra", t)
	mfraSize := uint32(8 + len(tfra) + 16)
	mfro := box("mfro", append([]byte{0, 0, 0, 0}, be32(mfraSize)...))
	return box("mfra", append(tfra, mfro...))
}

// RawMfraTracks: an mfra with one tfra per track (track ids 1..n); tfra k lists the first counts[k] of the given
// fragment offsets (a track may have fewer or more random access entries than another one).
func RawMfraTracks(moofOffsets []uint64, counts []int) []byte {
	var body []byte
	for k, c := range counts {
		t := []byte{1, 0, 0, 0}
		t = append(t, be32(uint32(k+1))...)
		t = append(t, be32(0)...)
		t = append(t, be32(uint32(c))...)
		for i := 0; i < c; i++ {
			off := uint64(0)
			if i < len(moofOffsets) {
				off = moofOffsets[i]
			}
			t = append(t, be64(uint64(i))...)
			t = append(t, be64(off)...)
			t = append(t, 1, 1, 1)
		}
		body = append(body, box("tfra", t)...)
	}
	mfro := box("mfro", append([]byte{0, 0, 0, 0}, be32(uint32(8+len(body)+16))...))
	return box("mfra", append(body, mfro...))
}
