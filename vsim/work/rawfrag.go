//go:build go1.21

package work

import (
	"bytes"
	"encoding/binary"
	"fmt"

	"github.com/Eyevinn/mp4ff/aac"
	"github.com/Eyevinn/mp4ff/internal/vsim/ref"
	"github.com/Eyevinn/mp4ff/internal/vsim/sim"
	"github.com/Eyevinn/mp4ff/mp4"
)

// RawProduce emits a fragmented production whose fragments are written byte by byte from ISO/IEC 14496-12 8.8
// (not through the library's fragment API), so that the shapes the API never produces are covered: per-sample values
// that come from the trex defaults or the tfhd defaults, first_sample_flags, several trun boxes per traf, tfdt
// version 0/1, traks and trex boxes in an order that differs from the track ids, base-is-moof or not.
// The init segment is built through the public API, its trex defaults are set through the exported fields and the
// trak / trex boxes are then permuted in the encoded bytes. The result has the same shape as a packager Production
// (Init, Seg and Objs are nil).
func RawProduce(r *sim.Run, maxTracks, maxSegs, maxFrags, maxSamples int) (*Production, error) {
	return RawProduceOpt(r, maxTracks, maxSegs, maxFrags, maxSamples, false, false)
}

// RawProduceOpt: with styp every segment begins with a styp box written here; with absBase (only meaningful when the
// caller uses the stream exactly as produced: init followed by the segments) some trafs carry an explicit
// base_data_offset (an absolute position in that stream, at or a little after the moof), alone or together with
// default-base-is-moof (8.8.7.1: the explicit offset wins).
func RawProduceOpt(r *sim.Run, maxTracks, maxSegs, maxFrags, maxSamples int, styp, absBase bool) (*Production, error) {
	t := r.T
	rnd := t.Sub()
	p := &Production{}
	nTracks := 1 + t.Draw(maxTracks)
	init := mp4.CreateEmptyInit()
	type defaults struct{ dur, size, flags uint32 }
	defs := make([]defaults, nTracks)
	for i := 0; i < nTracks; i++ {
		ts := TrackSpec{ID: uint32(i + 1), Timescale: tsPool[t.Draw(len(tsPool))]}
		if t.Draw(3) == 2 {
			ts.Media = "audio"
		} else {
			ts.Media = "video"
		}
		init.AddEmptyTrack(ts.Timescale, ts.Media, "und")
		trak := init.Moov.Traks[i]
		if ts.Media == "video" {
			ts.Codec = "avc1"
			if err := trak.SetAVCDescriptor("avc1", avcSPS, avcPPS, true); err != nil {
				return nil, err
			}
		} else {
			ts.Codec = "mp4a"
			if err := trak.SetAACDescriptor(aac.AAClc, 48000); err != nil {
				return nil, err
			}
		}
		defs[i] = defaults{[]uint32{1024, 512, 3000, 1, 4096}[t.Draw(5)], []uint32{16, 100, 4, 1}[t.Draw(4)], []uint32{0x02000000, 0x01010000}[t.Draw(2)]}
		trex := init.Moov.Mvex.Trexs[i]
		trex.DefaultSampleDuration, trex.DefaultSampleSize, trex.DefaultSampleFlags = defs[i].dur, defs[i].size, defs[i].flags
		p.Tracks = append(p.Tracks, ts)
	}
	var ib bytes.Buffer
	if err := init.Encode(&ib); err != nil {
		return nil, err
	}
	initBytes, err := permuteTracks(t, ib.Bytes())
	if err != nil {
		return nil, err
	}
	p.InitBytes = initBytes
	p.Log = make([][]SampleRec, nTracks)
	nextDts := make([]uint64, nTracks)
	for i := range nextDts {
		nextDts[i] = uint64(t.Draw(3)) * 100000
		if t.Chance(80) {
			nextDts[i] = []uint64{1<<32 - 1024, 1<<32 - 1, 1 << 32, 1<<32 + 1}[t.Draw(4)]
		}
	}
	seq := uint32(1 + t.Draw(5))
	nSegs := 1 + t.Draw(maxSegs)
	streamPos := int64(len(p.InitBytes)) // absolute position of the next segment in init + segments
	for si := 0; si < nSegs; si++ {
		sr := &SegRec{HasStyp: styp}
		var segBytes []byte
		if styp {
			segBytes = append(segBytes, RawStyp()...)
		}
		for fi := 0; fi < 1+t.Draw(maxFrags); fi++ {
			fr := FragRec{Seq: seq, From: make([]int, nTracks), To: make([]int, nTracks), Mode: "raw"}
			for ti := range fr.From {
				fr.From[ti] = len(p.Log[ti])
			}
			// which tracks, in which traf order
			var tracks []int
			for ti := 0; ti < nTracks; ti++ {
				if nTracks == 1 || t.Chance(700) {
					tracks = append(tracks, ti)
				}
			}
			if len(tracks) == 0 {
				tracks = []int{t.Draw(nTracks)}
			}
			if len(tracks) > 1 && t.Bool() {
				tracks[0], tracks[len(tracks)-1] = tracks[len(tracks)-1], tracks[0]
			}
			baseIsMoof := len(tracks) > 1 || t.Bool()
			type trunSpec struct {
				flags uint32
				first uint32 // first_sample_flags
				recs  []SampleRec
				off   int // position of the data_offset field inside the moof (patched later)
			}
			type trafSpec struct {
				ti      int
				truns   []*trunSpec
				raw     []byte
				baseAt  int   // position of the base_data_offset field inside raw (-1: none)
				baseAdd int64 // base_data_offset = absolute moof position + baseAdd
			}
			var trafs []*trafSpec
			var mdat []byte
			for _, ti := range tracks {
				d := defs[ti]
				// where each value comes from: 0 per sample, 1 tfhd default, 2 trex default
				mDur, mSize, mFlags := t.Draw(3), t.Draw(3), t.Draw(4) // flags: 3 = first_sample_flags + default for the rest
				tfDur, tfSize, tfFlags := []uint32{1024, 2000, 1, 0}[t.Draw(4)], []uint32{8, 33, 2}[t.Draw(3)], []uint32{0x01010000, 0x02000000, 0}[t.Draw(3)]
				flagsFrom := t.Draw(2) + 1 // for mFlags==3: rest of the samples from tfhd (1) or trex (2)
				hasCto := p.Tracks[ti].Media == "video" && t.Bool()
				tf := &trafSpec{ti: ti, baseAt: -1}
				if absBase && t.Chance(250) {
					tf.baseAdd = int64([]int{0, 8, 16, 40}[t.Draw(4)])
					tf.baseAt = 12 + 4 // tfhd header + version/flags, then track_ID
				}
				nTruns := 1
				if t.Chance(250) {
					nTruns = 2
				}
				for k := 0; k < nTruns; k++ {
					tr := &trunSpec{}
					n := 1 + t.Draw(maxSamples)
					for j := 0; j < n; j++ {
						rec := SampleRec{Dts: nextDts[ti]}
						switch mDur {
						case 0:
							rec.Dur = durPool[t.Draw(len(durPool))]
						case 1:
							rec.Dur = tfDur
						default:
							rec.Dur = d.dur
						}
						sz := 0
						switch mSize {
						case 0:
							sz = sizePool[t.Draw(len(sizePool))]
							if sz > 300 {
								sz = 300
							}
						case 1:
							sz = int(tfSize)
						default:
							sz = int(d.size)
						}
						rec.Data = make([]byte, sz)
						rnd.Fill(rec.Data)
						switch mFlags {
						case 0:
							rec.Flags = flagPool[t.Draw(len(flagPool))]
						case 1:
							rec.Flags = tfFlags
						case 2:
							rec.Flags = d.flags
						default:
							if j == 0 {
								if k == 0 || true {
									rec.Flags = 0x02000000
								}
							} else if flagsFrom == 1 {
								rec.Flags = tfFlags
							} else {
								rec.Flags = d.flags
							}
						}
						if hasCto {
							rec.Cto = ctoPool[t.Draw(len(ctoPool))]
						}
						nextDts[ti] += uint64(rec.Dur)
						p.Log[ti] = append(p.Log[ti], rec)
						tr.recs = append(tr.recs, rec)
						mdat = append(mdat, rec.Data...)
					}
					tr.flags = 0x1 // data_offset always present
					if mDur == 0 {
						tr.flags |= 0x100
					}
					if mSize == 0 {
						tr.flags |= 0x200
					}
					if mFlags == 0 {
						tr.flags |= 0x400
					}
					if mFlags == 3 {
						tr.flags |= 0x4
						tr.first = 0x02000000
					}
					if hasCto {
						tr.flags |= 0x800
					}
					tf.truns = append(tf.truns, tr)
				}
				// tfhd
				var tfFlagsWord uint32
				var tfPl []byte
				if mDur == 1 {
					tfFlagsWord |= 0x8
				}
				if mSize == 1 {
					tfFlagsWord |= 0x10
				}
				if mFlags == 1 || (mFlags == 3 && flagsFrom == 1) {
					tfFlagsWord |= 0x20
				}
				if baseIsMoof {
					tfFlagsWord |= 0x020000
				}
				tfPl = be32(uint32(ti + 1))
				if tf.baseAt >= 0 {
					tfFlagsWord |= 0x1
					tfPl = append(tfPl, make([]byte, 8)...) // base_data_offset, patched once the moof position is known
					if !baseIsMoof && t.Bool() {
						tfFlagsWord |= 0x020000 // both flags: the explicit offset still wins
					}
				}
				if tfFlagsWord&0x8 != 0 {
					tfPl = append(tfPl, be32(tfDur)...)
				}
				if tfFlagsWord&0x10 != 0 {
					tfPl = append(tfPl, be32(tfSize)...)
				}
				if tfFlagsWord&0x20 != 0 {
					tfPl = append(tfPl, be32(tfFlags)...)
				}
				raw := fullbox("tfhd", 0, tfFlagsWord, tfPl)
				first := p.Log[ti][fr.From[ti]].Dts
				if first >= 1<<32 || t.Bool() {
					raw = append(raw, fullbox("tfdt", 1, 0, be64(first))...)
				} else {
					raw = append(raw, fullbox("tfdt", 0, 0, be32(uint32(first)))...)
				}
				for _, tr := range tf.truns {
					pl := be32(uint32(len(tr.recs)))
					tr.off = len(raw) + 12 + 4  // box header + version/flags + sample_count
					pl = append(pl, 0, 0, 0, 0) // data_offset, patched below
					if tr.flags&0x4 != 0 {
						pl = append(pl, be32(tr.first)...)
					}
					ver := byte(0)
					for _, rec := range tr.recs {
						if rec.Cto < 0 {
							ver = 1
						}
					}
					for _, rec := range tr.recs {
						if tr.flags&0x100 != 0 {
							pl = append(pl, be32(rec.Dur)...)
						}
						if tr.flags&0x200 != 0 {
							pl = append(pl, be32(uint32(len(rec.Data)))...)
						}
						if tr.flags&0x400 != 0 {
							pl = append(pl, be32(rec.Flags)...)
						}
						if tr.flags&0x800 != 0 {
							pl = append(pl, be32(uint32(rec.Cto))...)
						}
					}
					raw = append(raw, fullbox("trun", ver, tr.flags, pl)...)
				}
				tf.raw = raw
				trafs = append(trafs, tf)
			}
			// assemble moof, then patch the data offsets (relative to the moof start; without base-is-moof a single traf
			// also counts from the moof start)
			moofPl := fullbox("mfhd", 0, 0, be32(seq))
			trafAt := make([]int, len(trafs))
			for i, tf := range trafs {
				trafAt[i] = 8 + len(moofPl) + 8 // moof header + what precedes + traf header
				moofPl = append(moofPl, box("traf", tf.raw)...)
			}
			moof := box("moof", moofPl)
			moofAbs := streamPos + int64(len(segBytes))
			dataPos := len(moof) + 8
			for i, tf := range trafs {
				if tf.baseAt >= 0 {
					binary.BigEndian.PutUint64(moof[trafAt[i]+tf.baseAt:], uint64(moofAbs+tf.baseAdd))
				}
				for _, tr := range tf.truns {
					binary.BigEndian.PutUint32(moof[trafAt[i]+tr.off:], uint32(int32(int64(dataPos)-tf.baseAdd)))
					for _, rec := range tr.recs {
						dataPos += len(rec.Data)
					}
				}
			}
			for ti := range fr.To {
				fr.To[ti] = len(p.Log[ti])
			}
			seq++
			segBytes = append(segBytes, moof...)
			segBytes = append(segBytes, box("mdat", mdat)...)
			sr.Frags = append(sr.Frags, fr)
		}
		sr.Bytes = segBytes
		streamPos += int64(len(segBytes))
		p.Segs = append(p.Segs, sr)
	}
	// self-check against the reference demuxer: the emitted stream must read back as the log
	stream := append([]byte(nil), p.InitBytes...)
	for _, s := range p.Segs {
		stream = append(stream, s.Bytes...)
	}
	d, err := ref.DemuxStream(stream, nil)
	if err != nil || d.Movie == nil {
		return nil, fmt.Errorf("rawfrag: emitted stream not demuxable: %v", err)
	}
	for ti := range p.Tracks {
		got := d.TrackSamples(uint32(ti + 1))
		if len(got) != len(p.Log[ti]) {
			return nil, fmt.Errorf("rawfrag: track %d: %d samples read back, %d written", ti+1, len(got), len(p.Log[ti]))
		}
		for k, w := range p.Log[ti] {
			g := got[k]
			if g.Dur != w.Dur || g.Flags != w.Flags || g.Cto != w.Cto || g.Dts != w.Dts || !bytes.Equal(g.Bytes(stream), w.Data) {
				return nil, fmt.Errorf("rawfrag: track %d sample %d reads back differently (dur %d/%d flags %#x/%#x cto %d/%d dts %d/%d)", ti+1, k, g.Dur, w.Dur, g.Flags, w.Flags, g.Cto, w.Cto, g.Dts, w.Dts)
			}
		}
	}
	return p, nil
}

// PermuteTracks is permuteTracks for a whole file whose first boxes are ftyp and moov (the rest is kept as it is).
func PermuteTracks(t *sim.Tape, file []byte) ([]byte, error) { return permuteTracks(t, file) }

// permuteTracks reorders the trak boxes inside moov and the trex boxes inside mvex (sizes unchanged).
func permuteTracks(t *sim.Tape, init []byte) ([]byte, error) {
	top, err := ref.Walk(init, 0, int64(len(init)), true)
	if err != nil {
		return nil, err
	}
	moov := ref.FindTop(top, "moov")
	if moov == nil {
		return nil, fmt.Errorf("rawfrag: no moov")
	}
	reorder := func(parent *ref.Box, typ string, out []byte) {
		kids := parent.FindAll(typ)
		if len(kids) < 2 || !t.Bool() {
			return
		}
		// rotate by a seeded amount: every box keeps its size, so only the order inside the span changes
		k := 1 + t.Draw(len(kids)-1)
		var span []byte
		for i := range kids {
			b := kids[(i+k)%len(kids)]
			span = append(span, init[b.Start:b.End()]...)
		}
		first, last := kids[0], kids[len(kids)-1]
		if int64(len(span)) != last.End()-first.Start {
			return // not contiguous: leave as is
		}
		copy(out[first.Start:], span)
	}
	out := append([]byte(nil), init...)
	reorder(moov, "trak", out)
	if mvex := moov.Find("mvex"); mvex != nil {
		reorder(mvex, "trex", out)
	}
	return out, nil
}
