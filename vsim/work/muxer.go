//go:build go1.21

package work

import (
	"fmt"

	"github.com/Eyevinn/mp4ff/internal/vsim/ref"
	"github.com/Eyevinn/mp4ff/internal/vsim/sim"
)

// Muxer node: synthesises progressive MP4 files as RAW BYTES from a sample log, written straight
// from ISO/IEC 14496-12 (no mp4ff code), with seeded chunking, interleaving, stco/co64, ctts v0/v1,
// stss/sdtp/edts presence, mdat before/after moov and 32/64-bit mdat header. The only borrowed bytes
// are stsd boxes copied verbatim from corpus files so that sample entries are realistic.

// MuxSample is one sample of a synthesised track.
type MuxSample struct {
	Data []byte
	Dur  uint32
	Cto  int32
	Sync bool
	Sdtp byte // sdtp entry, used when the track has an sdtp box and SdtpSeeded is set
}

// MuxTrack describes one synthesised track.
type MuxTrack struct {
	ID         uint32
	Handler    string // "vide" | "soun"
	Timescale  uint32
	Stsd       []byte
	Samples    []MuxSample
	Chunks     []int // samples per chunk, in order; sums to len(Samples)
	Co64       bool
	CttsVer    int // -1: no ctts box, 0 or 1
	Stss       bool
	Sdtp       bool
	SdtpSeeded bool // sdtp entries are per-sample seeded bytes instead of 0x20 (sync) / 0x10
	Edts       bool
	Uniform    bool // all samples have one size and stsz uses the uniform form (sample_size != 0, no table)
}

// MuxSpec is a whole file.
type MuxSpec struct {
	Tracks           []MuxTrack
	ChunksOutOfOrder bool
	Order            [][2]int // (track index, chunk index) in file order
	MdatFirst        bool
	LargeMdat        bool
	MovieTS          uint32
	FreeAfter        int // free box after ftyp (size, 0 = none)
}

func fullbox(typ string, version byte, flags uint32, payload []byte) []byte {
	p := append([]byte{version, byte(flags >> 16), byte(flags >> 8), byte(flags)}, payload...)
	return box(typ, p)
}

func cat(bs ...[]byte) []byte {
	var out []byte
	for _, b := range bs {
		out = append(out, b...)
	}
	return out
}

var unityMatrix = cat(be32(0x00010000), be32(0), be32(0), be32(0), be32(0x00010000), be32(0), be32(0), be32(0), be32(0x40000000))

var stsdCache = map[string][]byte{}

// StsdFor returns a verbatim stsd box for a handler type taken from a progressive corpus file.
func StsdFor(handler string) ([]byte, error) {
	if b, ok := stsdCache[handler]; ok {
		return b, nil
	}
	for _, cf := range corpus {
		if !cf.Progressive {
			continue
		}
		moov := ref.FindTop(cf.Top, "moov")
		for _, trak := range moov.FindAll("trak") {
			hdlr := trak.Path("mdia", "hdlr")
			stsd := trak.Path("mdia", "minf", "stbl", "stsd")
			if hdlr == nil || stsd == nil || hdlr.Payload()+12 > hdlr.End() {
				continue
			}
			if string(cf.Data[hdlr.Payload()+8:hdlr.Payload()+12]) == handler {
				b := append([]byte(nil), cf.Data[stsd.Start:stsd.End()]...)
				stsdCache[handler] = b
				return b, nil
			}
		}
	}
	return nil, fmt.Errorf("muxer: no corpus stsd for handler %q", handler)
}

func rle32(vals []uint32) []byte {
	var out []byte
	n := 0
	for i := 0; i < len(vals); {
		j := i
		for j < len(vals) && vals[j] == vals[i] {
			j++
		}
		out = append(out, be32(uint32(j-i))...)
		out = append(out, be32(vals[i])...)
		n++
		i = j
	}
	return append(be32(uint32(n)), out...)
}

// Mux serialises the spec. Returns the file bytes.
func Mux(s *MuxSpec) ([]byte, error) {
	ftyp := box("ftyp", cat([]byte("isom"), be32(512), []byte("isomiso2mp41")))
	var pre []byte
	pre = append(pre, ftyp...)
	if s.FreeAfter >= 8 {
		pre = append(pre, box("free", make([]byte, s.FreeAfter-8))...)
	}
	// payload and chunk offsets relative to payload start
	var payload []byte
	rel := make([][]int64, len(s.Tracks))
	startIdx := make([][]int, len(s.Tracks)) // first sample index of each chunk
	for ti, tr := range s.Tracks {
		rel[ti] = make([]int64, len(tr.Chunks))
		startIdx[ti] = make([]int, len(tr.Chunks))
		k := 0
		for ci, n := range tr.Chunks {
			startIdx[ti][ci] = k
			k += n
		}
		if k != len(tr.Samples) {
			return nil, fmt.Errorf("muxer: chunks of track %d cover %d of %d samples", tr.ID, k, len(tr.Samples))
		}
	}
	seen := 0
	for _, oc := range s.Order {
		ti, ci := oc[0], oc[1]
		rel[ti][ci] = int64(len(payload))
		for k := startIdx[ti][ci]; k < startIdx[ti][ci]+s.Tracks[ti].Chunks[ci]; k++ {
			payload = append(payload, s.Tracks[ti].Samples[k].Data...)
		}
		seen++
	}
	total := 0
	for _, tr := range s.Tracks {
		total += len(tr.Chunks)
	}
	if seen != total {
		return nil, fmt.Errorf("muxer: order lists %d of %d chunks", seen, total)
	}
	mdatHdr := 8
	if s.LargeMdat {
		mdatHdr = 16
	}
	buildMoov := func(payloadStart int64) []byte {
		var maxDur uint64
		var traks []byte
		for ti, tr := range s.Tracks {
			var durs, ctos []uint32
			var mediaDur uint64
			anyCto := false
			for _, sm := range tr.Samples {
				durs = append(durs, sm.Dur)
				ctos = append(ctos, uint32(sm.Cto))
				mediaDur += uint64(sm.Dur)
				if sm.Cto != 0 {
					anyCto = true
				}
			}
			_ = anyCto
			movieDur := mediaDur * uint64(s.MovieTS) / uint64(tr.Timescale)
			if movieDur > maxDur {
				maxDur = movieDur
			}
			var stbl []byte
			stbl = append(stbl, tr.Stsd...)
			stbl = append(stbl, fullbox("stts", 0, 0, rle32(durs))...)
			if tr.CttsVer >= 0 {
				stbl = append(stbl, fullbox("ctts", byte(tr.CttsVer), 0, rle32(ctos))...)
			}
			if tr.Stss {
				var p []byte
				n := 0
				for i, sm := range tr.Samples {
					if sm.Sync {
						p = append(p, be32(uint32(i+1))...)
						n++
					}
				}
				stbl = append(stbl, fullbox("stss", 0, 0, append(be32(uint32(n)), p...))...)
			}
			if tr.Sdtp {
				p := make([]byte, len(tr.Samples))
				for i, sm := range tr.Samples {
					switch {
					case tr.SdtpSeeded:
						p[i] = sm.Sdtp
					case sm.Sync:
						p[i] = 0x20
					default:
						p[i] = 0x10
					}
				}
				stbl = append(stbl, fullbox("sdtp", 0, 0, p)...)
			}
			// stsc: run-length over samples-per-chunk
			var sc []byte
			nsc := 0
			for ci := 0; ci < len(tr.Chunks); ci++ {
				if ci == 0 || tr.Chunks[ci] != tr.Chunks[ci-1] {
					sc = append(sc, cat(be32(uint32(ci+1)), be32(uint32(tr.Chunks[ci])), be32(1))...)
					nsc++
				}
			}
			stbl = append(stbl, fullbox("stsc", 0, 0, append(be32(uint32(nsc)), sc...))...)
			// stsz
			var sz []byte
			for _, sm := range tr.Samples {
				sz = append(sz, be32(uint32(len(sm.Data)))...)
			}
			if tr.Uniform && len(tr.Samples) > 0 {
				stbl = append(stbl, fullbox("stsz", 0, 0, cat(be32(uint32(len(tr.Samples[0].Data))), be32(uint32(len(tr.Samples)))))...)
			} else {
				stbl = append(stbl, fullbox("stsz", 0, 0, cat(be32(0), be32(uint32(len(tr.Samples))), sz))...)
			}
			// chunk offsets
			var co []byte
			for ci := range tr.Chunks {
				o := payloadStart + rel[ti][ci]
				if tr.Co64 {
					co = append(co, be64(uint64(o))...)
				} else {
					co = append(co, be32(uint32(o))...)
				}
			}
			if tr.Co64 {
				stbl = append(stbl, fullbox("co64", 0, 0, append(be32(uint32(len(tr.Chunks))), co...))...)
			} else {
				stbl = append(stbl, fullbox("stco", 0, 0, append(be32(uint32(len(tr.Chunks))), co...))...)
			}
			var mh []byte
			if tr.Handler == "vide" {
				mh = fullbox("vmhd", 0, 1, make([]byte, 8))
			} else {
				mh = fullbox("smhd", 0, 0, make([]byte, 4))
			}
			dinf := box("dinf", fullbox("dref", 0, 0, cat(be32(1), fullbox("url ", 0, 1, nil))))
			minf := box("minf", cat(mh, dinf, box("stbl", stbl)))
			var mdhd []byte
			if mediaDur > 0xffffffff {
				mdhd = fullbox("mdhd", 1, 0, cat(be64(0), be64(0), be32(tr.Timescale), be64(mediaDur), be16(0x55c4), be16(0)))
			} else {
				mdhd = fullbox("mdhd", 0, 0, cat(be32(0), be32(0), be32(tr.Timescale), be32(uint32(mediaDur)), be16(0x55c4), be16(0)))
			}
			hdlr := fullbox("hdlr", 0, 0, cat(be32(0), []byte(tr.Handler), make([]byte, 12), []byte("vsim\x00")))
			mdia := box("mdia", cat(mdhd, hdlr, minf))
			vol := uint16(0)
			w, h := uint32(0), uint32(0)
			if tr.Handler == "soun" {
				vol = 0x0100
			} else {
				w, h = 640<<16, 360<<16
			}
			var tkhd []byte
			if movieDur > 0xffffffff {
				tkhd = fullbox("tkhd", 1, 7, cat(be64(0), be64(0), be32(tr.ID), be32(0), be64(movieDur), make([]byte, 8), be16(0), be16(0), be16(vol), be16(0), unityMatrix, be32(w), be32(h)))
			} else {
				tkhd = fullbox("tkhd", 0, 7, cat(be32(0), be32(0), be32(tr.ID), be32(0), be32(uint32(movieDur)), make([]byte, 8), be16(0), be16(0), be16(vol), be16(0), unityMatrix, be32(w), be32(h)))
			}
			var trak []byte
			trak = append(trak, tkhd...)
			if tr.Edts {
				elst := fullbox("elst", 0, 0, cat(be32(1), be32(uint32(movieDur)), be32(0), be16(1), be16(0)))
				if movieDur > 0xffffffff {
					elst = fullbox("elst", 1, 0, cat(be32(1), be64(movieDur), be64(0), be16(1), be16(0)))
				}
				trak = append(trak, box("edts", elst)...)
			}
			trak = append(trak, mdia...)
			traks = append(traks, box("trak", trak)...)
		}
		mvhd := fullbox("mvhd", 0, 0, cat(be32(0), be32(0), be32(s.MovieTS), be32(uint32(maxDur)), be32(0x00010000), be16(0x0100), make([]byte, 10), unityMatrix, make([]byte, 24), be32(uint32(len(s.Tracks)+1))))
		if maxDur > 0xffffffff {
			mvhd = fullbox("mvhd", 1, 0, cat(be64(0), be64(0), be32(s.MovieTS), be64(maxDur), be32(0x00010000), be16(0x0100), make([]byte, 10), unityMatrix, make([]byte, 24), be32(uint32(len(s.Tracks)+1))))
		}
		return box("moov", cat(mvhd, traks))
	}
	moovLen := len(buildMoov(0))
	var payloadStart int64
	if s.MdatFirst {
		payloadStart = int64(len(pre) + mdatHdr)
	} else {
		payloadStart = int64(len(pre) + moovLen + mdatHdr)
	}
	moov := buildMoov(payloadStart)
	if len(moov) != moovLen {
		return nil, fmt.Errorf("muxer: moov size changed between passes")
	}
	var mdat []byte
	if s.LargeMdat {
		mdat = cat(be32(1), []byte("mdat"), be64(uint64(16+len(payload))), payload)
	} else {
		mdat = cat(be32(uint32(8+len(payload))), []byte("mdat"), payload)
	}
	if s.MdatFirst {
		return cat(pre, mdat, moov), nil
	}
	return cat(pre, moov, mdat), nil
}

// DrawMuxSpec draws a seeded file specification.
func DrawMuxSpec(t *sim.Tape) (*MuxSpec, error) { return DrawMuxSpecOpt(t, false) }

// DrawMuxSpecOpt: with av set the file has exactly one video track with an stss box and at most one
// audio track (what the segmenter example supports: one output name per media type).
func DrawMuxSpecOpt(t *sim.Tape, av bool) (*MuxSpec, error) {
	rnd := t.Sub()
	s := &MuxSpec{MovieTS: []uint32{1000, 600, 90000}[t.Draw(3)], MdatFirst: t.Bool(), LargeMdat: t.Chance(250)}
	if t.Chance(200) {
		s.FreeAfter = 8 + t.Draw(40)
	}
	nTracks := 1 + t.Draw(3)
	videoAt := 0
	if av {
		nTracks = 1 + t.Draw(2)
		videoAt = t.Draw(nTracks)
	}
	for i := 0; i < nTracks; i++ {
		tr := MuxTrack{ID: uint32(i + 1), Co64: t.Chance(300), CttsVer: -1}
		video := t.Draw(3) != 2
		if av {
			video = i == videoAt
		}
		if video {
			tr.Handler = "vide"
			tr.Timescale = []uint32{90000, 12800, 25, 30000}[t.Draw(4)]
			tr.Stss = av || !t.Chance(200)
			tr.Sdtp = t.Chance(300)
			tr.SdtpSeeded = tr.Sdtp && t.Bool()
			if t.Chance(600) {
				tr.CttsVer = t.Draw(2)
			}
		} else {
			tr.Handler = "soun"
			tr.Timescale = []uint32{48000, 44100, 22050}[t.Draw(3)]
		}
		tr.Edts = t.Chance(300)
		tr.Uniform = t.Chance(200)
		uniSize := 1 + t.Draw(48)
		var err error
		if tr.Stsd, err = StsdFor(tr.Handler); err != nil {
			return nil, err
		}
		n := 1 + t.Draw(40)
		gop := 1 + t.Draw(8)
		irregular := video && tr.Stss && t.Chance(250) // sync samples at seeded, unevenly spaced positions
		zeroSizes := !tr.Uniform && t.Chance(120)      // some samples are empty (legal: size 0)
		baseDur := []uint32{1, 512, 1001, 1024, 3000, 3600}[t.Draw(6)]
		if t.Chance(60) {
			// very long samples in a fine timescale: stts runs that last more than 2^32 ticks (legal; needs version-1 headers)
			tr.Timescale = 10000000
			if t.Bool() {
				s.MovieTS = 10000000 // the movie header then needs 64-bit durations too (version 1)
			}
			baseDur = uint32(150000000 + 1000000*t.Draw(50))
		}
		for k := 0; k < n; k++ {
			sm := MuxSample{Dur: baseDur, Sync: true}
			if t.Chance(150) {
				sm.Dur = baseDur + uint32(t.Draw(3))
			}
			if video {
				sm.Sync = !tr.Stss || k%gop == 0
				if irregular {
					sm.Sync = k == 0 || t.Chance(250)
					if k == 0 && n > 2 && t.Chance(200) {
						sm.Sync = false // the stream was cut before its first key frame (open start)
					}
					if k == 1 && !tr.Samples[0].Sync {
						sm.Sync = true
					}
				}
				if tr.CttsVer >= 0 {
					sm.Cto = int32(t.Draw(4)) * int32(baseDur)
					if tr.CttsVer == 1 && t.Chance(200) {
						sm.Cto = -int32(baseDur)
					}
				}
			}
			sm.Data = make([]byte, 1+t.Draw(48))
			if tr.Uniform {
				sm.Data = make([]byte, uniSize)
			}
			if zeroSizes && t.Chance(250) {
				sm.Data = sm.Data[:0]
			}
			rnd.Fill(sm.Data)
			if tr.SdtpSeeded {
				sm.Sdtp = byte(rnd.U64())
			}
			tr.Samples = append(tr.Samples, sm)
		}
		// chunking
		left := n
		spc := 1 + t.Draw(6)
		for left > 0 {
			c := spc
			if t.Chance(250) {
				c = 1 + t.Draw(6)
			}
			if c > left {
				c = left
			}
			tr.Chunks = append(tr.Chunks, c)
			left -= c
		}
		s.Tracks = append(s.Tracks, tr)
	}
	// interleaving: seeded merge of the per-track chunk sequences (each track's chunks stay in order)
	next := make([]int, nTracks)
	for {
		var cands []int
		for ti := range s.Tracks {
			if next[ti] < len(s.Tracks[ti].Chunks) {
				cands = append(cands, ti)
			}
		}
		if len(cands) == 0 {
			break
		}
		ti := cands[t.Draw(len(cands))]
		s.Order = append(s.Order, [2]int{ti, next[ti]})
		next[ti]++
	}
	if len(s.Order) >= 2 && t.Chance(100) {
		// chunks need not lie in the file in the order of their chunk numbers: two placements are exchanged
		i, j := t.Draw(len(s.Order)), t.Draw(len(s.Order))
		s.Order[i], s.Order[j] = s.Order[j], s.Order[i]
		s.ChunksOutOfOrder = i != j
	}
	return s, nil
}
