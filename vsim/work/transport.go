//go:build go1.21

package work

import (
	"encoding/binary"
	"fmt"

	"github.com/Eyevinn/mp4ff/internal/vsim/ref"
	"github.com/Eyevinn/mp4ff/internal/vsim/sim"
)

// Unit transport: a byte stream is split into units (boxes at any depth, by the independent walker)
// and the transport may drop, duplicate, swap, move units or splice foreign ones, like a network or
// a store-and-forward hop that loses, repeats and reorders messages. With Repair the enclosing size
// fields are recomputed (a well-formed but unusual stream); without it they are left as they were
// (a corrupt stream). No mp4ff code is involved.

// UNode is one unit.
type UNode struct {
	Type     string
	Large    bool
	Prefix   []byte // fixed part between header and children (stsd: 8, meta: 4, sample entries: 78/28)
	Children []*UNode
	Raw      []byte // payload of a leaf
	OrigSize uint64
	IsCont   bool
}

func buildNodes(data []byte, bs []*ref.Box) []*UNode {
	out := make([]*UNode, 0, len(bs))
	for _, b := range bs {
		n := &UNode{Type: b.Type, Large: b.Hdr == 16, OrigSize: uint64(b.Size)}
		if b.Children != nil {
			n.IsCont = true
			first := b.End()
			if len(b.Children) > 0 {
				first = b.Children[0].Start
			}
			n.Prefix = data[b.Payload():first]
			n.Children = buildNodes(data, b.Children)
		} else {
			n.Raw = data[b.Payload():b.End()]
		}
		out = append(out, n)
	}
	return out
}

// ParseUnits builds the unit tree of a stream.
func ParseUnits(data []byte) ([]*UNode, error) {
	top, err := ref.Walk(data, 0, int64(len(data)), true)
	if err != nil {
		return nil, err
	}
	return buildNodes(data, top), nil
}

// clone deep-copies a unit (duplicates must not share structure, or a later move could create a cycle).
func (n *UNode) clone() *UNode {
	c := *n
	c.Children = nil
	for _, ch := range n.Children {
		c.Children = append(c.Children, ch.clone())
	}
	return &c
}

func (n *UNode) size(repair bool) uint64 {
	if !repair {
		return n.OrigSize
	}
	var s uint64 = 8
	if n.Large {
		s = 16
	}
	s += uint64(len(n.Prefix)) + uint64(len(n.Raw))
	for _, c := range n.Children {
		s += c.size(true)
	}
	return s
}

func (n *UNode) appendTo(out []byte, repair bool) []byte {
	sz := n.size(repair)
	var h [16]byte
	if n.Large {
		binary.BigEndian.PutUint32(h[:], 1)
		copy(h[4:], n.Type)
		binary.BigEndian.PutUint64(h[8:], sz)
		out = append(out, h[:16]...)
	} else {
		binary.BigEndian.PutUint32(h[:], uint32(sz))
		copy(h[4:], n.Type)
		out = append(out, h[:8]...)
	}
	out = append(out, n.Prefix...)
	out = append(out, n.Raw...)
	for _, c := range n.Children {
		out = c.appendTo(out, repair)
	}
	return out
}

// Serialize emits the unit list.
func Serialize(ns []*UNode, repair bool) []byte {
	var out []byte
	for _, n := range ns {
		out = n.appendTo(out, repair)
	}
	return out
}

// containers whose child list may be edited without touching a count field
var editable = map[string]bool{"moov": true, "trak": true, "mdia": true, "minf": true, "stbl": true, "dinf": true, "edts": true,
	"mvex": true, "moof": true, "traf": true, "mfra": true, "udta": true, "sinf": true, "schi": true,
	"avc1": true, "avc3": true, "hvc1": true, "hev1": true, "encv": true, "mp4a": true, "enca": true, "ac-3": true, "ec-3": true}

type level struct {
	list  *[]*UNode
	owner string
	depth int
}

func collectLevels(top *[]*UNode, deep bool) []level {
	out := []level{{top, "", 0}}
	if !deep {
		return out
	}
	var rec func(ns []*UNode, d int)
	rec = func(ns []*UNode, d int) {
		for _, n := range ns {
			if n.IsCont && editable[n.Type] {
				out = append(out, level{&n.Children, n.Type, d + 1})
			}
			if n.IsCont {
				rec(n.Children, d+1)
			}
		}
	}
	rec(*top, 0)
	return out
}

// ForeignUnit makes a foreign box as raw unit.
func ForeignUnit(t *sim.Tape, rnd *sim.Rand) *UNode {
	n := t.Draw(48)
	pl := make([]byte, n)
	rnd.Fill(pl)
	typ := []string{"free", "skip", "zzzz", "uuid", "emsg", "prft", "abcd", "meta", "btrt", "sgpd"}[t.Draw(10)]
	switch typ {
	case "sgpd":
		// sample group description (version 1) with a seeded grouping type, default_length and small entries:
		// exercises the per-type sample-group-entry decoders (roll, rap, alst, seig, unknown)
		gt := []string{"roll", "rap ", "alst", "seig", "zzzz"}[t.Draw(5)]
		// the natural entry size of the grouping type (alst: roll_count 0..2 plus 0..1 optional pairs), or a seeded
		// one (which the typed entry decoders must reject); default_length 0 = every entry carries its own length
		rc := t.Draw(3)
		nat := map[string]int{"roll": 2, "rap ": 1, "alst": 4 + 4*rc + 4*t.Draw(2), "seig": 20, "zzzz": 1 + t.Draw(23)}[gt]
		if t.Chance(200) {
			nat = t.Draw(24)
		}
		dl := nat
		if t.Chance(350) {
			dl = 0
		}
		n := t.Draw(3)
		// version 1, or version 2 in the layout the library reads and writes (default_length, then
		// default_group_description_index, then the entries with their lengths)
		p := cat([]byte{1, 0, 0, 0}, []byte(gt), be32(uint32(dl)))
		if t.Chance(300) {
			p[0] = 2
			p = append(p, be32(uint32(t.Draw(3)))...)
		}
		p = append(p, be32(uint32(n))...)
		for i := 0; i < n; i++ {
			el := nat
			if dl == 0 {
				p = append(p, be32(uint32(el))...)
			}
			e := make([]byte, el)
			rnd.Fill(e)
			if gt == "alst" && el >= 2 {
				e[0], e[1] = 0, byte(rc)
			}
			if gt == "seig" && el >= 4 {
				e[2], e[3] = byte(t.Draw(2)), 8*byte(1+t.Draw(2)) // protected or not, per-sample IV size 8/16 (no constant IV)
			}
			p = append(p, e...)
		}
		pl = p
	case "btrt":
		pl = cat(be32(uint32(t.Draw(1<<20))), be32(uint32(t.Draw(1<<24))), be32(uint32(t.Draw(1<<24))))
	case "meta":
		// a meta box holding a handler box; QuickTime style (no version/flags word) or ISO style (FullBox)
		hd := fullbox("hdlr", 0, 0, cat(be32(0), []byte("mdir"), make([]byte, 12), []byte("vsim\x00")))
		if t.Bool() {
			pl = hd
		} else {
			pl = append([]byte{0, 0, 0, 0}, hd...)
		}
	case "uuid":
		u := []byte{0x6d, 0x1d, 0x9b, 0x05, 0x42, 0xd5, 0x44, 0xe6, 0x80, 0xe2, 0x14, 0x1d, 0xaf, 0xf7, 0x57, 0xb2} // tfxd
		if t.Bool() {
			u = []byte{1, 2, 3, 4, 5, 6, 7, 8, 9, 10, 11, 12, 13, 14, 15, 16}
			pl = append(append([]byte(nil), u...), pl...)
		} else {
			body := make([]byte, 4+16)
			body[0] = 1 // version 1: 64-bit time and duration
			binary.BigEndian.PutUint64(body[4:], uint64(t.Draw(1<<20)))
			binary.BigEndian.PutUint64(body[12:], uint64(t.Draw(1<<16)))
			pl = append(append([]byte(nil), u...), body...)
		}
	case "emsg":
		// version 1 emsg: timescale, presentation_time, duration, id, scheme\0, value\0, data
		b := make([]byte, 4+4+8+4+4)
		b[0] = 1
		binary.BigEndian.PutUint32(b[4:], 90000)
		binary.BigEndian.PutUint64(b[8:], uint64(t.Draw(1<<20)))
		binary.BigEndian.PutUint32(b[16:], uint32(t.Draw(9000)))
		binary.BigEndian.PutUint32(b[20:], uint32(t.Draw(100)))
		b = append(b, []byte("urn:x\x00v\x00")...)
		pl = append(b, pl...)
	case "prft":
		b := make([]byte, 4+4+8+8)
		b[0] = 1
		binary.BigEndian.PutUint32(b[4:], 1)
		binary.BigEndian.PutUint64(b[8:], uint64(t.Draw(1<<30)))
		binary.BigEndian.PutUint64(b[16:], uint64(t.Draw(1<<30)))
		pl = b
	}
	return &UNode{Type: typ, Raw: pl, OrigSize: uint64(8 + len(pl))}
}

// TransportOp describes what the transport did (for traces).
type TransportOp struct {
	Kind  string
	Where string
	Unit  string
}

func (o TransportOp) String() string { return fmt.Sprintf("%s %s in %q", o.Kind, o.Unit, o.Where) }

// Transport applies nOps seeded unit-level faults to the tree (in place) and returns what it did.
// kinds: which of drop/dup/swap/move/splice are enabled.
func Transport(r *sim.Run, top *[]*UNode, nOps int, deep bool, kinds []string) []TransportOp {
	t := r.T
	rnd := t.Sub()
	var done []TransportOp
	for i := 0; i < nOps; i++ {
		levels := collectLevels(top, deep)
		lv := levels[t.Draw(len(levels))]
		list := *lv.list
		kind := kinds[t.Draw(len(kinds))]
		where := lv.owner
		if where == "" {
			where = "top"
		}
		switch kind {
		case "drop":
			if len(list) == 0 {
				continue
			}
			k := t.Draw(len(list))
			done = append(done, TransportOp{"drop", where, list[k].Type})
			*lv.list = append(append([]*UNode(nil), list[:k]...), list[k+1:]...)
			r.Fault("unit-dropped")
		case "dup":
			if len(list) == 0 {
				continue
			}
			k := t.Draw(len(list))
			done = append(done, TransportOp{"dup", where, list[k].Type})
			nl := append([]*UNode(nil), list[:k+1]...)
			nl = append(nl, list[k].clone())
			nl = append(nl, list[k+1:]...)
			*lv.list = nl
			r.Fault("unit-duplicated")
		case "swap":
			if len(list) < 2 {
				continue
			}
			k := t.Draw(len(list) - 1)
			done = append(done, TransportOp{"swap", where, list[k].Type + "<->" + list[k+1].Type})
			nl := append([]*UNode(nil), list...)
			nl[k], nl[k+1] = nl[k+1], nl[k]
			*lv.list = nl
			r.Fault("unit-reordered")
		case "move":
			if len(list) == 0 {
				continue
			}
			k := t.Draw(len(list))
			u := list[k]
			*lv.list = append(append([]*UNode(nil), list[:k]...), list[k+1:]...)
			levels2 := collectLevels(top, deep)
			lv2 := levels2[t.Draw(len(levels2))]
			l2 := *lv2.list
			at := t.Draw(len(l2) + 1)
			nl := append([]*UNode(nil), l2[:at]...)
			nl = append(nl, u)
			nl = append(nl, l2[at:]...)
			*lv2.list = nl
			w2 := lv2.owner
			if w2 == "" {
				w2 = "top"
			}
			done = append(done, TransportOp{"move", where + "->" + w2, u.Type})
			r.Fault("unit-moved")
		case "shrink-table": // a table box loses its last entries (count field and payload shortened consistently)
			type cand struct {
				n        *UNode
				k        int
				cntOff   int
				cntBytes int
				entry    int
			}
			var cands []cand
			for k, n := range list {
				if n.IsCont || len(n.Raw) < 8 {
					continue
				}
				ver, flags := n.Raw[0], uint32(n.Raw[1])<<16|uint32(n.Raw[2])<<8|uint32(n.Raw[3])
				switch n.Type {
				case "stts", "ctts":
					cands = append(cands, cand{n, k, 4, 4, 8})
				case "stsc":
					cands = append(cands, cand{n, k, 4, 4, 12})
				case "stco", "stss":
					cands = append(cands, cand{n, k, 4, 4, 4})
				case "co64":
					cands = append(cands, cand{n, k, 4, 4, 8})
				case "stsz":
					if len(n.Raw) >= 12 && binary.BigEndian.Uint32(n.Raw[4:]) == 0 {
						cands = append(cands, cand{n, k, 8, 4, 4})
					}
				case "elst":
					if ver == 0 {
						cands = append(cands, cand{n, k, 4, 4, 12})
					} else {
						cands = append(cands, cand{n, k, 4, 4, 20})
					}
				case "saio":
					off, e := 4, 4
					if flags&1 != 0 {
						off = 12
					}
					if ver == 1 {
						e = 8
					}
					cands = append(cands, cand{n, k, off, 4, e})
				case "sbgp":
					off := 8
					if ver == 1 {
						off = 12
					}
					cands = append(cands, cand{n, k, off, 4, 8})
				case "sidx":
					off := 22
					if ver == 1 {
						off = 30
					}
					cands = append(cands, cand{n, k, off, 2, 12})
				case "sgpd":
					off := 12
					if ver >= 2 {
						off = 12
					}
					cands = append(cands, cand{n, k, off, 4, -1})
				case "tfra":
					// entry size depends on the length fields; only the count is lowered to 0
					cands = append(cands, cand{n, k, 12, 4, -1})
				}
			}
			if len(cands) == 0 {
				continue
			}
			c := cands[t.Draw(len(cands))]
			if len(c.n.Raw) < c.cntOff+c.cntBytes {
				continue
			}
			var cnt int
			if c.cntBytes == 2 {
				cnt = int(binary.BigEndian.Uint16(c.n.Raw[c.cntOff:]))
			} else {
				cnt = int(binary.BigEndian.Uint32(c.n.Raw[c.cntOff:]))
			}
			newCnt := 0
			if cnt > 1 && c.entry > 0 {
				newCnt = []int{0, 1, cnt - 1}[t.Draw(3)]
			}
			nn := c.n.clone()
			raw := append([]byte(nil), c.n.Raw...)
			keep := c.cntOff + c.cntBytes
			if c.entry > 0 {
				keep += newCnt * c.entry
			}
			if keep > len(raw) {
				continue
			}
			raw = raw[:keep]
			if c.cntBytes == 2 {
				binary.BigEndian.PutUint16(raw[c.cntOff:], uint16(newCnt))
			} else {
				binary.BigEndian.PutUint32(raw[c.cntOff:], uint32(newCnt))
			}
			nn.Raw = raw
			nn.OrigSize = uint64(8 + len(raw))
			nl := append([]*UNode(nil), list...)
			nl[c.k] = nn
			*lv.list = nl
			done = append(done, TransportOp{"shrink-table", where, fmt.Sprintf("%s %d->%d entries", nn.Type, cnt, newCnt)})
			r.Fault("unit-table-shrunk")
		case "largesize": // rewrite a box header into the 64-bit size form (legal for any box; typical for mdat)
			var cands []int
			for k, n := range list {
				if !n.Large && (n.Type == "mdat" || t.Chance(100)) {
					cands = append(cands, k)
				}
			}
			if len(cands) == 0 {
				continue
			}
			k := cands[t.Draw(len(cands))]
			c := list[k].clone()
			c.Large = true
			c.OrigSize += 8
			nl := append([]*UNode(nil), list...)
			nl[k] = c
			*lv.list = nl
			done = append(done, TransportOp{"largesize", where, c.Type})
			r.Fault("unit-largesize-header")
		case "version": // a FullBox whose version byte holds a value the standard has not defined (2..4, 255)
			var cands []int
			for k, n := range list {
				if n.IsCont || len(n.Raw) < 4 {
					continue
				}
				switch n.Type {
				case "tfdt", "sidx", "prft", "subs", "mvhd", "tkhd", "mdhd", "mehd", "elst", "ctts", "trun", "emsg", "sgpd",
					"sbgp", "saio", "saiz", "pssh", "tenc", "cslg", "tfra", "mfro", "stts", "stss", "stsz", "hdlr", "vmhd", "smhd", "trex", "tfhd", "mfhd", "kind", "elng", "ssix", "leva", "trep":
					cands = append(cands, k)
				}
			}
			if len(cands) == 0 {
				continue
			}
			k := cands[t.Draw(len(cands))]
			c := list[k].clone()
			c.Raw = append([]byte(nil), c.Raw...)
			old := c.Raw[0]
			c.Raw[0] = byte(2 + t.Draw(3))
			if t.Chance(100) {
				c.Raw[0] = 255
			}
			nl := append([]*UNode(nil), list...)
			nl[k] = c
			*lv.list = nl
			done = append(done, TransportOp{"version", where, fmt.Sprintf("%s v%d->v%d", c.Type, old, c.Raw[0])})
			r.Fault("unit-undefined-version")
		case "splice":
			u := ForeignUnit(t, rnd)
			at := t.Draw(len(list) + 1)
			nl := append([]*UNode(nil), list[:at]...)
			nl = append(nl, u)
			nl = append(nl, list[at:]...)
			*lv.list = nl
			done = append(done, TransportOp{"splice", where, u.Type})
			r.Fault("unit-spliced")
		}
	}
	return done
}
