//go:build go1.21

package main

import (
	"bytes"
	"fmt"
	"os"
	"path/filepath"
	"sort"
	"strings"
	"testing"

	_ "github.com/Eyevinn/mp4ff/internal/vsim/props"
	"github.com/Eyevinn/mp4ff/internal/vsim/ref"
	"github.com/Eyevinn/mp4ff/internal/vsim/sim"
	"github.com/Eyevinn/mp4ff/internal/vsim/work"
	"github.com/Eyevinn/mp4ff/mp4"
)

// TestVsimEntry is the entry point of the C11 (segmenter) tool harness.
func TestVsimEntry(t *testing.T) {
	if os.Getenv("VSIM_MODE") == "" {
		t.Skip("vsim tool harness: not invoked by the simulator")
	}
	p := sim.Lookup("C11")
	p.Setup = vsimC11Setup
	p.Run = func(r *sim.Run) { vsimSegRun(r, false) }
	// C08b: lazy decode forced, no faults, plus the lazy-vs-in-memory differential over the written files
	q := sim.Lookup("C08b")
	q.Setup = vsimC11Setup
	q.Run = func(r *sim.Run) { vsimSegRun(r, true) }
	os.Exit(sim.ToolEntry())
}

var vsimSegInputs []*work.CorpusFile

func vsimC11Setup() error {
	c, err := work.LoadCorpus()
	if err != nil {
		return err
	}
	for _, cf := range c {
		if !cf.Progressive {
			continue
		}
		// the segmenter needs exactly one video track with stss and at most one audio track
		moov := ref.FindTop(cf.Top, "moov")
		mi, err := ref.ParseMoov(cf.Data, moov)
		if err != nil {
			continue
		}
		nv, na, other := 0, 0, 0
		stss := false
		for _, tr := range mi.Tracks {
			switch tr.Handler {
			case "vide":
				nv++
				stss = tr.HasStss
			case "soun":
				na++
			default:
				other++
			}
		}
		if nv == 1 && na <= 1 && other == 0 && stss {
			vsimSegInputs = append(vsimSegInputs, cf)
		}
	}
	if len(vsimSegInputs) < 1 {
		return fmt.Errorf("c11: no usable progressive corpus file")
	}
	if err := vsimSegSmoke(); err != nil {
		return fmt.Errorf("c11 smoke run of run(): %w", err)
	}
	if dn, err := os.OpenFile(os.DevNull, os.O_WRONLY, 0); err == nil {
		os.Stdout = dn
	}
	return nil
}

func vsimSegSmoke() error {
	dir, err := os.MkdirTemp("", "vsim-seg")
	if err != nil {
		return err
	}
	defer os.RemoveAll(dir)
	in := filepath.Join(dir, "in.mp4")
	if err := os.WriteFile(in, vsimSegInputs[0].Data, 0o644); err != nil {
		return err
	}
	return run([]string{"segmenter", "-d", "2000", in, "out"}, dir)
}

func vsimReadOutputs(dir, prefix string) (map[string][]byte, error) {
	ents, err := os.ReadDir(dir)
	if err != nil {
		return nil, err
	}
	out := map[string][]byte{}
	for _, e := range ents {
		if strings.HasPrefix(e.Name(), prefix) {
			b, err := os.ReadFile(filepath.Join(dir, e.Name()))
			if err != nil {
				return nil, err
			}
			out[e.Name()] = b
		}
	}
	return out, nil
}

func vsimSegRun(r *sim.Run, c08 bool) {
	t := r.T
	var img []byte
	name := ""
	if t.Chance(600) {
		spec, err := work.DrawMuxSpecOpt(t, true)
		if err != nil {
			panic(sim.HarnessAbort{Msg: err.Error()})
		}
		img, err = work.Mux(spec)
		if err != nil {
			panic(sim.HarnessAbort{Msg: err.Error()})
		}
		name = fmt.Sprintf("mux(%d tracks)", len(spec.Tracks))
		r.Probe("muxer-file")
	} else {
		cf := vsimSegInputs[t.Draw(len(vsimSegInputs))]
		img, name = cf.Data, cf.Name
		r.Probe("corpus-file")
	}
	din, err := ref.DemuxStream(img, nil)
	if err != nil || din.Movie == nil {
		panic(sim.HarnessAbort{Msg: fmt.Sprintf("input %s not readable by the reference: %v", name, err)})
	}
	refIdx := -1
	for i, tr := range din.Movie.Tracks {
		if tr.Handler == "vide" && refIdx < 0 {
			refIdx = i
		}
	}
	rt := din.Movie.Tracks[refIdx]
	var total uint64
	for _, s := range rt.Samples {
		total += uint64(s.Dur)
	}
	totalMS := int(total*1000/uint64(rt.Timescale)) + 1
	segDurMS := 1 + t.Draw(totalMS+200)
	if t.Chance(300) {
		segDurMS = 1 + t.Draw(min(totalMS, 100))
	}
	mode := []string{"single", "multi", "lazy-write"}[t.Draw(3)]
	lazyDecode := mode == "lazy-write" || t.Bool()
	cfg := sim.DrawDelivery(t)
	faulty := lazyDecode && t.Chance(200)
	if c08 {
		lazyDecode, faulty = true, false
	}
	if faulty {
		switch t.Draw(3) {
		case 0:
			cfg.ErrAtOp = 1 + t.Draw(200)
		case 1:
			cfg.SeekErrAt = 1 + t.Draw(30)
		case 2:
			cfg.TruncAt = int64(t.Draw(len(img)))
		}
	}
	r.Logf("input=%s len=%d segDurMS=%d mode=%s lazyDecode=%v delivery=%+v", name, len(img), segDurMS, mode, lazyDecode, cfg)
	r.Event("in", int(sim.HashString(name)&0xffff), segDurMS, btoiV(lazyDecode))
	h := sim.NewHandle(r, name, img, cfg)
	var f *mp4.File
	if lazyDecode {
		r.Guard("DecodeFile(lazy)", func() { f, err = mp4.DecodeFile(h, mp4.WithDecodeMode(mp4.DecModeLazyMdat)) })
	} else {
		r.Guard("DecodeFile", func() { f, err = mp4.DecodeFile(sim.StreamReader{H: h}) })
	}
	if err != nil {
		if !faulty {
			r.Violate("c11-decode", "decoding the input failed without any fault: %v", err)
		}
		return
	}
	dir, err := os.MkdirTemp("", "vsim-c11")
	if err != nil {
		panic(sim.HarnessAbort{Msg: err.Error()})
	}
	defer os.RemoveAll(dir)
	prefix := filepath.Join(dir, "out")
	// the steps of run(), with the simulated disk in place of the os file
	panicked := false
	segment := func(f *mp4.File, rs *sim.Handle, prefix, mode string) {
		defer func() {
			if rec := recover(); rec != nil {
				if _, ok := rec.(sim.HarnessAbort); ok {
					panic(rec)
				}
				panicked = true
				err = fmt.Errorf("panic: %v", rec)
			}
		}()
		var seg *Segmenter
		seg, err = NewSegmenter(f)
		if err != nil {
			return
		}
		ts, starts := getSegmentStartsFromVideo(f, uint32(segDurMS))
		if err = seg.SetTargetSegmentation(ts, starts); err != nil {
			return
		}
		switch mode {
		case "multi":
			err = makeMultiTrackSegments(seg, f, rs, prefix)
		case "lazy-write":
			err = makeSingleTrackSegmentsLazyWrite(seg, f, rs, prefix)
		default:
			if rs == nil {
				err = makeSingleTrackSegments(seg, f, nil, prefix)
			} else {
				err = makeSingleTrackSegments(seg, f, rs, prefix)
			}
		}
	}
	var rs *sim.Handle
	if lazyDecode {
		rs = h
	}
	segment(f, rs, prefix, mode)
	r.Logf("segmenter -> err=%v panicked=%v", err, panicked)
	if err != nil {
		r.Probe("segmenter-failed(no claim)")
		r.Event("failed")
		return
	}
	r.Probe("segmenter-succeeded")
	outs, rerr := vsimReadOutputs(dir, "out")
	if rerr != nil {
		panic(sim.HarnessAbort{Msg: rerr.Error()})
	}
	vsimCheckSegments(r, mode, img, din, refIdx, outs)
	if !c08 {
		return
	}
	// C08: the same segmentation of the fully decoded file must write the same files
	var fe *mp4.File
	r.Guard("DecodeFile(in memory)", func() { fe, err = mp4.DecodeFile(bytes.NewReader(img)) })
	if err != nil {
		r.Violate("c08b-decode", "in-memory decode failed where lazy decode succeeded: %v", err)
		return
	}
	memMode := mode
	if mode == "lazy-write" {
		memMode = "single" // the in-memory counterpart of lazily copied media data
	}
	segment(fe, nil, filepath.Join(dir, "mem"), memMode)
	if err != nil {
		r.Violate("c08b-segments-differ", "segmenting the fully decoded file failed (%v) where the lazily decoded one succeeded", err)
		return
	}
	mems, rerr := vsimReadOutputs(dir, "mem")
	if rerr != nil {
		panic(sim.HarnessAbort{Msg: rerr.Error()})
	}
	if len(mems) != len(outs) {
		r.Violate("c08b-segments-differ", "lazy source: %d output files, in-memory source: %d", len(outs), len(mems))
		return
	}
	names := make([]string, 0, len(outs))
	for n := range outs {
		names = append(names, n)
	}
	sort.Strings(names)
	for _, n := range names {
		if !bytes.Equal(outs[n], mems["mem"+strings.TrimPrefix(n, "out")]) {
			r.Violate("c08b-segments-differ", "output file %s differs between the lazily and the fully decoded source", n)
			return
		}
	}
	r.Probe("segmenter-lazy-vs-memory-compared")
}

func btoiV(b bool) int {
	if b {
		return 1
	}
	return 0
}

type vsimSegFile struct {
	nr   int
	data []byte
}

// vsimCheckSegments: per track the concatenated outputs must hold exactly the input's sample sequence.
func vsimCheckSegments(r *sim.Run, mode string, img []byte, din *ref.Demux, refIdx int, outs map[string][]byte) {
	type stream struct {
		init []byte
		segs []vsimSegFile
	}
	streams := map[string]*stream{}
	for name, b := range outs {
		base := strings.TrimPrefix(name, "out")
		var key string
		var nr int
		switch {
		case base == "_init.mp4":
			key, nr = "mux", -1
		case strings.HasPrefix(base, "_media_"):
			key = "mux"
			fmt.Sscanf(base, "_media_%d.m4s", &nr)
		default:
			// _v1_init.mp4, _a1_3.m4s
			parts := strings.Split(strings.TrimSuffix(strings.TrimSuffix(base, ".mp4"), ".m4s"), "_")
			if len(parts) != 3 {
				continue
			}
			key = parts[1][:1]
			if parts[2] == "init" {
				nr = -1
			} else {
				fmt.Sscanf(parts[2], "%d", &nr)
			}
		}
		st := streams[key]
		if st == nil {
			st = &stream{}
			streams[key] = st
		}
		if nr < 0 {
			st.init = b
		} else {
			st.segs = append(st.segs, vsimSegFile{nr, b})
		}
	}
	check := func(who string, st *stream, inTracks []*ref.Track, isRef []bool) {
		if st == nil || st.init == nil {
			r.Violate("c11-missing-output", "%s: no init segment was written", who)
			return
		}
		sort.Slice(st.segs, func(i, j int) bool { return st.segs[i].nr < st.segs[j].nr })
		di, err := ref.DemuxStream(st.init, nil)
		if err != nil || di.Movie == nil {
			r.Violate("c11-output-unreadable", "%s: init segment unreadable: %v", who, err)
			return
		}
		got := make([][]ref.Sample, len(inTracks))
		gotBytes := make([][][]byte, len(inTracks))
		for _, sf := range st.segs {
			d, err := ref.DemuxStream(sf.data, di.Movie.Trex)
			if err != nil {
				r.Violate("c11-output-unreadable", "%s: media segment %d unreadable: %v", who, sf.nr, err)
				return
			}
			for ti := range inTracks {
				ss := d.TrackSamples(uint32(ti + 1))
				// (an input that does not begin with a sync sample cannot both keep every sample and start its first
				// segment with one: the first segment is exempt then)
				if isRef[ti] && len(ss) > 0 && !ss[0].Sync && !(len(got[ti]) == 0 && len(inTracks[ti].Samples) > 0 && !inTracks[ti].Samples[0].Sync) {
					r.Violate("c11-segment-start", "%s: media segment %d does not start with a sync sample of the reference track", who, sf.nr)
				}
				for _, s := range ss {
					got[ti] = append(got[ti], s)
					gotBytes[ti] = append(gotBytes[ti], s.Bytes(sf.data))
				}
			}
		}
		for ti, it := range inTracks {
			if len(got[ti]) != len(it.Samples) {
				r.Violate("c11-sample-count", "%s track %d (%s): %d samples in the segments, %d in the input", who, it.ID, it.Handler, len(got[ti]), len(it.Samples))
				continue
			}
			for i, a := range it.Samples {
				b := got[ti][i]
				switch {
				case !bytes.Equal(a.Bytes(img), gotBytes[ti][i]):
					r.Violate("c11-bytes", "%s track %d sample %d: bytes differ", who, it.ID, i+1)
				case a.Dur != b.Dur:
					r.Violate("c11-duration", "%s track %d sample %d: duration %d, input %d", who, it.ID, i+1, b.Dur, a.Dur)
				case a.Cto != b.Cto:
					r.Violate("c11-cto", "%s track %d sample %d: composition offset %d, input %d", who, it.ID, i+1, b.Cto, a.Cto)
				case a.Dts != b.Dts:
					r.Violate("c11-dts", "%s track %d sample %d: decode time %d, input %d", who, it.ID, i+1, b.Dts, a.Dts)
				case a.Sync != b.Sync:
					r.Violate("c11-sync", "%s track %d sample %d: sync %v, input %v", who, it.ID, i+1, b.Sync, a.Sync)
				case a.Sdtp >= 0 && int(b.Flags>>20&0xff) != a.Sdtp:
					// sdtp byte = is_leading(2) depends_on(2) is_depended_on(2) has_redundancy(2) = bits 27..20 of sample_flags
					r.Violate("c11-flags", "%s track %d sample %d: dependency flags %02x in the segments, sdtp entry of the input %02x", who, it.ID, i+1, b.Flags>>20&0xff, a.Sdtp)
				}
			}
		}
	}
	if mode == "multi" {
		isRef := make([]bool, len(din.Movie.Tracks))
		isRef[refIdx] = true
		check("multiplexed output", streams["mux"], din.Movie.Tracks, isRef)
		return
	}
	for i, tr := range din.Movie.Tracks {
		key := "a"
		if tr.Handler == "vide" {
			key = "v"
		}
		check(fmt.Sprintf("single-track output (%s)", key), streams[key], []*ref.Track{tr}, []bool{i == refIdx})
	}
}
