//go:build go1.21

package main

import (
	"bytes"
	"io"
	"os"
	"path/filepath"
	"testing"

	"github.com/Eyevinn/mp4ff/internal/vsim/props"
	"github.com/Eyevinn/mp4ff/internal/vsim/ref"
	"github.com/Eyevinn/mp4ff/internal/vsim/sim"
)

// TestVsimEntry is the entry point of the C12b (add-sidx) tool harness.
func TestVsimEntry(t *testing.T) {
	if os.Getenv("VSIM_MODE") == "" {
		t.Skip("vsim tool harness: not invoked by the simulator")
	}
	p := sim.Lookup("C12b")
	p.Setup = vsimSetup
	p.Run = vsimRun
	os.Exit(sim.ToolEntry())
}

func vsimSetup() error {
	if err := props.C12Setup(); err != nil {
		return err
	}
	if dn, err := os.OpenFile(os.DevNull, os.O_WRONLY, 0); err == nil {
		os.Stdout = dn
		os.Stderr = dn
	}
	return nil
}

// the delimiter modes the tool can be told about (it never sets the ISM flag, so no mfra mode)
var vsimModes = []string{"styp", "sidx", "none", "start-on-moof", "multi-sidx", "interleaved-sidx"}

func vsimRun(r *sim.Run) {
	t := r.T
	cs := props.C12Build(r, vsimModes)
	if cs == nil {
		return
	}
	dir, err := os.MkdirTemp("", "vsim-c12b")
	if err != nil {
		panic(sim.HarnessAbort{Msg: err.Error()})
	}
	defer os.RemoveAll(dir)
	in, outp := filepath.Join(dir, "in.mp4"), filepath.Join(dir, "out.mp4")
	if err := os.WriteFile(in, cs.Stream, 0o644); err != nil {
		panic(sim.HarnessAbort{Msg: err.Error()})
	}
	args := []string{"add-sidx"}
	if cs.Mode == "start-on-moof" {
		args = append(args, "-startSegOnMoof")
	}
	nz := t.Bool()
	if nz {
		args = append(args, "-nzEPT")
	}
	rmEnc := t.Chance(250)
	if rmEnc {
		args = append(args, "-removeEnc") // the stream is clear: there is nothing to remove and nothing may change
	}
	args = append(args, in, outp)
	r.NonTriv = true
	r.Logf("mode=%s stream=%d bytes expected grouping %v ref track %d; %v", cs.Mode, len(cs.Stream), cs.Groups, cs.RefID, args[1:len(args)-2])
	r.Event("tool", btoi(nz), btoi(rmEnc), len(cs.Groups))
	var terr error
	panicked := false
	func() {
		defer func() {
			if rec := recover(); rec != nil {
				if _, ok := rec.(sim.HarnessAbort); ok {
					panic(rec)
				}
				panicked = true
			}
		}()
		terr = run(args, io.Discard)
	}()
	if panicked || terr != nil {
		// the inputs are valid fragmented files with one of the delimiter layouts the tool documents
		r.Violate("c12b-tool-failed", "add-sidx %v failed on a valid fragmented file (mode %s): err=%v panicked=%v", args[1:len(args)-2], cs.Mode, terr, panicked)
		return
	}
	out, err := os.ReadFile(outp)
	if err != nil {
		panic(sim.HarnessAbort{Msg: err.Error()})
	}
	topO, err := ref.Walk(out, 0, int64(len(out)), true)
	if err != nil {
		r.Violate("c12b-output", "the tool's output is not a box sequence: %v", err)
		return
	}
	keep := map[string]bool{"ftyp": true, "moov": true, "emsg": true, "moof": true, "mdat": true}
	if a, b := props.C12Kept(out, topO, keep), props.C12Kept(cs.Stream, cs.Top0, keep); !bytes.Equal(a, b) {
		r.Violate("c12b-bytes", "mode %s: init boxes + fragments of the tool's output differ from the input's (%d vs %d bytes)", cs.Mode, len(a), len(b))
		return
	}
	props.C12CheckIndex(r, cs.Mode, out, cs.Groups, cs.RefID, cs.MediaEnd-cs.SegStarts[0])
	r.Probe("add-sidx-checked")
}

func btoi(b bool) int {
	if b {
		return 1
	}
	return 0
}
