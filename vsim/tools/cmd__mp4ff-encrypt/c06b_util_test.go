//go:build go1.21

package main

import (
	"bytes"

	"github.com/Eyevinn/mp4ff/internal/vsim/props"
	"github.com/Eyevinn/mp4ff/internal/vsim/sim"
	"github.com/Eyevinn/mp4ff/mp4"
)

func bytesReader(b []byte) *bytes.Reader { return bytes.NewReader(b) }

// vsimDecryptAndCheck decrypts tool output with the library and applies the C06 oracles against the clear encoding.
func vsimDecryptAndCheck(r *sim.Run, p *props.C06Prod, who string, clear, enc, encInit, key []byte, frs []props.C06Frag, withInit bool) {
	f, err := mp4.DecodeFile(bytes.NewReader(append([]byte(nil), enc...)))
	if err != nil {
		r.Violate("c06-decode-encrypted", "%s: output does not decode: %v", who, err)
		return
	}
	init := f.Init
	if init == nil {
		fi, err := mp4.DecodeFile(bytes.NewReader(encInit))
		if err != nil || fi.Init == nil {
			r.Violate("c06-decode-encrypted", "%s: protected init does not decode: %v", who, err)
			return
		}
		init = fi.Init
	}
	var di mp4.DecryptInfo
	r.Guard("DecryptInit", func() { di, err = mp4.DecryptInit(init) })
	if err != nil {
		r.Violate("c06-decrypt-error", "%s: DecryptInit failed: %v", who, err)
		return
	}
	for si, seg := range f.Segments {
		r.Guard("DecryptSegment", func() { err = mp4.DecryptSegment(seg, di, key) })
		if err != nil {
			r.Violate("c06-decrypt-error", "%s: DecryptSegment(%d) failed: %v", who, si, err)
			return
		}
	}
	s := sim.NewSink(nil)
	r.Guard("Encode(decrypted)", func() { err = f.Encode(s) })
	if err != nil {
		r.Violate("c06-reencode", "%s: encoding the decrypted file failed: %v", who, err)
		return
	}
	props.C06Check(r, p, who, clear, s.Buf, frs, withInit, false)
}
