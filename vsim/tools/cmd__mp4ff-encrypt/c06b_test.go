//go:build go1.21

package main

import (
	"encoding/hex"
	"fmt"
	"os"
	"testing"

	"github.com/Eyevinn/mp4ff/internal/vsim/props"
	"github.com/Eyevinn/mp4ff/internal/vsim/sim"
	"github.com/Eyevinn/mp4ff/mp4"
)

// TestVsimEntry is the entry point of the C06b (mp4ff-encrypt inner function) tool harness.
func TestVsimEntry(t *testing.T) {
	if os.Getenv("VSIM_MODE") == "" {
		t.Skip("vsim tool harness: not invoked by the simulator")
	}
	p := sim.Lookup("C06b")
	p.Setup = func() error {
		if err := props.C06Setup(); err != nil {
			return err
		}
		if dn, err := os.OpenFile(os.DevNull, os.O_WRONLY, 0); err == nil {
			os.Stdout = dn
		}
		return nil
	}
	p.Run = vsimRun
	os.Exit(sim.ToolEntry())
}

// vsimEncrypt calls the tool's encryptFile between a simulated input stream and a simulated sink.
func vsimEncrypt(r *sim.Run, what string, in []byte, initSeg *mp4.InitSegment, scheme, kid, key, iv string, faulty bool) (out []byte, err error, claim bool) {
	t := r.T
	cfg := sim.DrawDelivery(t)
	sink := sim.NewSink(r)
	if faulty {
		switch t.Draw(3) {
		case 0:
			cfg.ErrAtOp = 1 + t.Draw(60)
			cfg.ErrPart = t.Bool()
		case 1:
			sink.FailAtOp = 1 + t.Draw(20)
		case 2:
			sink.Capacity = t.Draw(len(in) + 1)
		}
	}
	h := sim.NewHandle(r, what, in, cfg)
	func() {
		defer func() {
			if rec := recover(); rec != nil {
				if _, ok := rec.(sim.HarnessAbort); ok {
					panic(rec)
				}
				err = fmt.Errorf("panic: %v", rec)
			}
		}()
		err = encryptFile(sim.StreamReader{H: h}, sink, initSeg, scheme, kid, key, iv, nil)
	}()
	r.Logf("encryptFile(%s, %d bytes, separate init=%v) -> err=%v, %d bytes out (reader failed=%v sink failed=%v)", what, len(in), initSeg != nil, err, sink.N, h.Failed, sink.Failed)
	if err != nil {
		if !h.Failed && !sink.Failed {
			r.Violate("c06-tool-error", "mp4ff-encrypt failed on a valid clear %s without any injected fault: %v", what, err)
		}
		r.Probe("encrypt-tool-failed(no claim)")
		return nil, err, false
	}
	if sink.Failed || h.Failed {
		r.Violate("c06-swallowed-io-error", "mp4ff-encrypt returned nil although the %s failed", map[bool]string{true: "output sink", false: "input reader"}[sink.Failed])
		return nil, nil, false
	}
	return sink.Buf, nil, true
}

func vsimRun(r *sim.Run) {
	t := r.T
	rnd := t.Sub()
	scheme := []string{"cenc", "cbcs"}[t.Draw(2)]
	key := make([]byte, 16)
	rnd.Fill(key)
	iv := props.C06RandIV(t, rnd)
	var p *props.C06Prod
	var err error
	r.Guard("producer", func() { p, err = props.C06Produce(r, scheme, key, iv) })
	if err != nil || p == nil {
		r.Violate("c06-encrypt-error", "producing a clear %s track failed: %v", scheme, err)
		return
	}
	r.NonTriv = true
	keyHex, ivHex := hex.EncodeToString(key), hex.EncodeToString(iv)
	kidHex := "00112233445566778899aabbccddeeff"
	faulty := t.Chance(250)
	var allFrs []props.C06Frag
	for _, f := range p.Frags {
		allFrs = append(allFrs, f...)
	}
	decrypt := func(enc []byte, init *mp4.InitSegment) ([]byte, *mp4.InitSegment, bool) {
		f, err := mp4.DecodeFile(bytesReader(enc))
		if err != nil {
			r.Violate("c06-decode-encrypted", "output of mp4ff-encrypt does not decode: %v", err)
			return nil, nil, false
		}
		if init == nil {
			init = f.Init
		}
		if init == nil {
			r.Violate("c06-decode-encrypted", "output of mp4ff-encrypt has no init and none was supplied")
			return nil, nil, false
		}
		return enc, init, true
	}
	_ = decrypt
	if t.Bool() {
		// whole file: init + segments through one call
		clear := append([]byte(nil), p.ClearInit...)
		for _, s := range p.ClearSegs {
			clear = append(clear, s...)
		}
		r.Event("tool-whole")
		enc, _, claim := vsimEncrypt(r, "file", clear, nil, scheme, kidHex, keyHex, ivHex, faulty)
		if !claim {
			return
		}
		vsimDecryptAndCheck(r, p, "whole file via mp4ff-encrypt", clear, enc, nil, key, allFrs, true)
		return
	}
	// init first, then every media segment on its own against the protected init
	r.Event("tool-separate")
	encInit, _, claim := vsimEncrypt(r, "init", p.ClearInit, nil, scheme, kidHex, keyHex, ivHex, faulty && t.Bool())
	if !claim {
		return
	}
	fi, err := mp4.DecodeFile(bytesReader(encInit))
	if err != nil || fi.Init == nil {
		r.Violate("c06-decode-encrypted", "protected init written by mp4ff-encrypt does not decode: %v", err)
		return
	}
	for si := range p.ClearSegs {
		fi2, _ := mp4.DecodeFile(bytesReader(encInit)) // fresh init object for the tool, as reading the init file again would give
		encSeg, _, claim := vsimEncrypt(r, fmt.Sprintf("segment %d", si), p.ClearSegs[si], fi2.Init, scheme, kidHex, keyHex, ivHex, faulty && t.Chance(300))
		if !claim {
			continue
		}
		vsimDecryptAndCheck(r, p, fmt.Sprintf("segment %d via mp4ff-encrypt -init", si), p.ClearSegs[si], encSeg, encInit, key, p.Frags[si], false)
	}
}
