//go:build go1.21

package main

import (
	"bytes"
	"fmt"
	"io"
	"os"
	"testing"

	_ "github.com/Eyevinn/mp4ff/internal/vsim/props"
	"github.com/Eyevinn/mp4ff/internal/vsim/ref"
	"github.com/Eyevinn/mp4ff/internal/vsim/sim"
	"github.com/Eyevinn/mp4ff/internal/vsim/work"
	"github.com/Eyevinn/mp4ff/mp4"
)

// TestVsimEntry is the entry point of the C11b (resegmenter + Fragmentify) tool harness.
func TestVsimEntry(t *testing.T) {
	if os.Getenv("VSIM_MODE") == "" {
		t.Skip("vsim tool harness: not invoked by the simulator")
	}
	p := sim.Lookup("C11b")
	p.Setup = vsimSetup
	p.Run = vsimRun
	os.Exit(sim.ToolEntry())
}

var vsimFragInputs [][]byte
var vsimFragNames []string

func vsimSetup() error {
	if err := work.SetupPackager(); err != nil {
		return err
	}
	for _, n := range []string{"testV300.mp4", "bbb5s_aac_sidx.mp4"} {
		if cf := work.ByName(n); cf != nil {
			vsimFragInputs = append(vsimFragInputs, cf.Data)
			vsimFragNames = append(vsimFragNames, n)
		}
	}
	if len(vsimFragInputs) == 0 {
		return fmt.Errorf("c11b: no fragmented single-track corpus file")
	}
	if dn, err := os.OpenFile(os.DevNull, os.O_WRONLY, 0); err == nil {
		os.Stdout = dn
	}
	return nil
}

type vsimS struct {
	data  []byte
	dur   uint32
	flags uint32
	cto   int32
	dts   uint64
}

func vsimSeq(data []byte, d *ref.Demux, trackID uint32) []vsimS {
	var out []vsimS
	for _, s := range d.TrackSamples(trackID) {
		out = append(out, vsimS{s.Bytes(data), s.Dur, s.Flags, s.Cto, s.Dts})
	}
	return out
}

func vsimCmp(r *sim.Run, class, who string, a, b []vsimS) {
	if len(a) != len(b) {
		r.Violate(class+"-count", "%s: %d samples after, %d before", who, len(b), len(a))
		return
	}
	for i := range a {
		switch {
		case !bytes.Equal(a[i].data, b[i].data):
			r.Violate(class+"-bytes", "%s sample %d: bytes differ", who, i+1)
		case a[i].dur != b[i].dur:
			r.Violate(class+"-duration", "%s sample %d: duration %d, before %d", who, i+1, b[i].dur, a[i].dur)
		case a[i].flags != b[i].flags:
			r.Violate(class+"-flags", "%s sample %d: flags %#x, before %#x", who, i+1, b[i].flags, a[i].flags)
		case a[i].cto != b[i].cto:
			r.Violate(class+"-cto", "%s sample %d: composition offset %d, before %d", who, i+1, b[i].cto, a[i].cto)
		case a[i].dts != b[i].dts:
			r.Violate(class+"-dts", "%s sample %d: decode time %d, before %d", who, i+1, b[i].dts, a[i].dts)
		}
	}
}

func vsimRun(r *sim.Run) {
	t := r.T
	var stream []byte
	name := ""
	if t.Chance(700) {
		var p *work.Production
		var err error
		if t.Chance(300) {
			// fragments written byte by byte (values from trex / tfhd defaults, first_sample_flags, two truns)
			if p, err = work.RawProduceOpt(r, 1, 4, 3, 8, true, true); err != nil {
				panic(sim.HarnessAbort{Msg: "raw fragment producer: " + err.Error()})
			}
			stream, name = p.Stream(), "raw-fragment-stream"
			r.Probe("raw-fragment-production")
		} else {
			r.Guard("packager", func() {
				p, err = work.Package(r, work.PackOpts{MaxTracks: 1, MaxSegs: 4, MaxFrags: 3, MaxSamples: 8, Foreign: t.Bool(), Styp: 1, SplitTruns: true, LargeMdat: true})
			})
			if err != nil || p == nil {
				r.Violate("packager-error", "a documented-valid API history failed: %v", err)
				return
			}
			stream, name = p.Stream(), "packager-stream"
		}
	} else {
		i := t.Draw(len(vsimFragInputs))
		stream, name = vsimFragInputs[i], vsimFragNames[i]
	}
	din, err := ref.DemuxStream(stream, nil)
	if err != nil || din.Movie == nil || len(din.Movie.Tracks) != 1 {
		panic(sim.HarnessAbort{Msg: fmt.Sprintf("input %s unusable: %v", name, err)})
	}
	tid := din.Movie.Tracks[0].ID
	before := vsimSeq(stream, din, tid)
	cfg := sim.DrawDelivery(t)
	h := sim.NewHandle(r, name, stream, cfg)
	var f *mp4.File
	r.Guard("DecodeFile", func() { f, err = mp4.DecodeFile(sim.StreamReader{H: h}) })
	if err != nil {
		r.Violate("c11-decode", "decoding %s failed: %v", name, err)
		return
	}
	r.NonTriv = true
	if t.Bool() {
		// ---- resegmenter
		var total uint64
		for _, s := range before {
			total += uint64(s.dur)
		}
		chunkDur := uint64(1 + t.Draw(int(min(total+2, 1<<30))))
		if t.Chance(300) {
			chunkDur = uint64(1 + t.Draw(4000))
		}
		r.Logf("Resegment(%s, chunkDur=%d): %d samples in", name, chunkDur, len(before))
		r.Event("resegment", int(chunkDur&0xffff))
		var nf *mp4.File
		panicked := false
		func() {
			defer func() {
				if rec := recover(); rec != nil {
					if _, ok := rec.(sim.HarnessAbort); ok {
						panic(rec)
					}
					panicked = true
					err = fmt.Errorf("panic: %v", rec)
				}
			}()
			nf, err = Resegment(io.Discard, f, chunkDur, t.Bool())
		}()
		if err != nil {
			r.Probe("resegment-failed(no claim)")
			r.Logf("Resegment failed: %v (panicked=%v)", err, panicked)
			return
		}
		s := sim.NewSink(nil)
		r.Guard("Encode(resegmented)", func() { err = nf.Encode(s) })
		if err != nil {
			r.Violate("c11-resegment-encode", "encoding the resegmented file failed: %v", err)
			return
		}
		dout, err := ref.DemuxStream(s.Buf, nil)
		if err != nil || dout.Movie == nil {
			r.Violate("c11-output-unreadable", "resegmented output unreadable: %v", err)
			return
		}
		vsimCmp(r, "c11-resegment", "resegmented track", before, vsimSeq(s.Buf, dout, tid))
		// every produced segment after the first starts with a sync sample (cut points are chosen by the tool)
		segStart := false
		first := true
		fi := 0
		for _, b := range dout.Top {
			switch b.Type {
			case "styp":
				segStart = true
			case "moof":
				if segStart && !first && fi < len(dout.Fragments) {
					for _, ft := range dout.Fragments[fi].Tracks {
						if len(ft.Samples) > 0 {
							fl := ft.Samples[0].Flags
							if fl&0x00010000 != 0 || (fl>>24)&0x3 != 2 {
								r.Violate("c11-segment-start", "resegmented segment with mfhd seq %d starts with a non-sync sample (flags %#x)", dout.Fragments[fi].Seq, fl)
							}
						}
					}
				}
				segStart = false
				first = false
				fi++
			}
		}
		r.Probe("resegment-checked")
		return
	}
	// ---- MediaSegment.Fragmentify on every segment
	if f.Init == nil || len(f.Segments) == 0 {
		return
	}
	trex := f.Init.Moov.Mvex.Trex
	dur := uint32(1 + t.Draw(20000))
	out := append([]byte(nil), func() []byte { var b bytes.Buffer; _ = f.Init.Encode(&b); return b.Bytes() }()...)
	r.Logf("Fragmentify(%s, duration=%d) over %d segments", name, dur, len(f.Segments))
	r.Event("fragmentify", int(dur))
	for si, seg := range f.Segments {
		var frags []*mp4.Fragment
		r.Guard("Fragmentify", func() { frags, err = seg.Fragmentify(uint64(din.Movie.Tracks[0].Timescale), trex, dur) })
		if err != nil {
			r.Violate("c11-fragmentify-error", "Fragmentify(segment %d) failed: %v", si, err)
			return
		}
		ns := mp4.NewMediaSegment()
		for _, fr := range frags {
			ns.AddFragment(fr)
		}
		s := sim.NewSink(nil)
		r.Guard("Encode(fragmentified)", func() { err = ns.Encode(s) })
		if err != nil {
			r.Violate("c11-fragmentify-encode", "encoding the re-fragmented segment %d failed: %v", si, err)
			return
		}
		out = append(out, s.Buf...)
	}
	dout, err := ref.DemuxStream(out, nil)
	if err != nil || dout.Movie == nil {
		r.Violate("c11-output-unreadable", "re-fragmented output unreadable: %v", err)
		return
	}
	vsimCmp(r, "c11-fragmentify", "re-fragmented track", before, vsimSeq(out, dout, tid))
	r.Probe("fragmentify-checked")
}
