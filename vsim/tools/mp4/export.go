package mp4

import "sort"

// VsimDecoderKeys exposes the key sets of the two box-decoder registries and of the
// sample-group-entry decoder table (harness-only file injected by -overlay; add-only).
func VsimDecoderKeys() (rd, sr, sge []string) {
	for k := range decoders {
		rd = append(rd, k)
	}
	for k := range decodersSR {
		sr = append(sr, k)
	}
	for k := range sgeDecoders {
		sge = append(sge, k)
	}
	sort.Strings(rd)
	sort.Strings(sr)
	sort.Strings(sge)
	return
}
