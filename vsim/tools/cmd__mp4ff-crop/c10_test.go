//go:build go1.21

package main

import (
	"bytes"
	"fmt"
	"os"
	"path/filepath"
	"testing"

	_ "github.com/Eyevinn/mp4ff/internal/vsim/props"
	"github.com/Eyevinn/mp4ff/internal/vsim/ref"
	"github.com/Eyevinn/mp4ff/internal/vsim/sim"
	"github.com/Eyevinn/mp4ff/internal/vsim/work"
	"github.com/Eyevinn/mp4ff/mp4"
)

// TestVsimEntry is the entry point of the C10 tool harness (worker / replay / shrink modes).
// Without VSIM_MODE it does nothing, so the repository's own test run is unaffected.
func TestVsimEntry(t *testing.T) {
	if os.Getenv("VSIM_MODE") == "" {
		t.Skip("vsim tool harness: not invoked by the simulator")
	}
	p := sim.Lookup("C10")
	p.Setup = vsimC10Setup
	p.Run = func(r *sim.Run) { vsimCropRun(r, false) }
	// C08c: the same world without faults, plus the lazy-vs-in-memory differential
	q := sim.Lookup("C08c")
	q.Setup = vsimC10Setup
	q.Run = func(r *sim.Run) { vsimCropRun(r, true) }
	code := sim.ToolEntry()
	os.Exit(code)
}

var vsimProg []*work.CorpusFile

func vsimC10Setup() error {
	c, err := work.LoadCorpus()
	if err != nil {
		return err
	}
	for _, cf := range c {
		if cf.Progressive {
			vsimProg = append(vsimProg, cf)
		}
	}
	if len(vsimProg) < 3 {
		return fmt.Errorf("c10: only %d progressive corpus files", len(vsimProg))
	}
	if err := vsimSmoke(); err != nil {
		return fmt.Errorf("c10 smoke run of run(): %w", err)
	}
	// the tool prints progress with fmt.Printf: silence it (the worker protocol uses sim.Out)
	if dn, err := os.OpenFile(os.DevNull, os.O_WRONLY, 0); err == nil {
		os.Stdout = dn
	}
	return nil
}

// vsimSmoke runs the real run() once end to end on a real scratch directory (un-faulted components).
func vsimSmoke() error {
	dir, err := os.MkdirTemp("", "vsim-crop")
	if err != nil {
		return err
	}
	defer os.RemoveAll(dir)
	in := filepath.Join(dir, "in.mp4")
	src := work.ByName("prog_8s.mp4")
	if src == nil {
		return fmt.Errorf("prog_8s.mp4 missing from the corpus")
	}
	if err := os.WriteFile(in, src.Data, 0o644); err != nil {
		return err
	}
	var sink bytes.Buffer
	return run([]string{"mp4ff-crop", "-d", "1000", in, filepath.Join(dir, "out.mp4")}, &sink)
}

type vsimTrackKey struct {
	size uint32
	dur  uint32
	cto  int32
	sync bool
}

func vsimCropRun(r *sim.Run, c08 bool) {
	t := r.T
	// ---- input
	var img []byte
	name := ""
	switch t.Draw(3) {
	case 0, 1:
		spec, err := work.DrawMuxSpec(t)
		if err != nil {
			panic(sim.HarnessAbort{Msg: err.Error()})
		}
		img, err = work.Mux(spec)
		if err != nil {
			panic(sim.HarnessAbort{Msg: err.Error()})
		}
		name = fmt.Sprintf("mux(%d tracks, mdatFirst=%v, large=%v)", len(spec.Tracks), spec.MdatFirst, spec.LargeMdat)
		r.Probe("muxer-file")
	default:
		cf := vsimProg[t.Draw(len(vsimProg))]
		img, name = cf.Data, cf.Name
		r.Probe("corpus-file")
		if t.Chance(400) {
			v := work.LayoutVariant{LargeMdat: t.Bool(), MdatFirst: t.Bool()}
			if !v.MdatFirst {
				v.MdatLast = t.Bool()
			}
			if t.Chance(300) {
				v.EmptyMdat, v.EmptyLarge = 1+t.Draw(3), t.Bool() // an extra, empty media data box (legal)
			}
			if t.Chance(200) {
				v.FreePad, v.FreeLarge = 8+t.Draw(24), t.Bool()
			}
			if nd, err := work.ApplyLayout(img, v); err == nil {
				img = nd
				name += "[" + v.String() + "]"
				r.Probe("layout-variant")
			}
		}
	}
	if t.Chance(150) {
		// the children of moov in another (legal) order, e.g. a non-trak box between two traks
		for n := 1 + t.Draw(2); n > 0; n-- {
			if nd, what, ok := work.SwapMoovChildren(img, t.Draw(8)); ok {
				img = nd
				name += "[" + what + "]"
				r.Probe("moov-children-reordered")
			}
		}
	}
	din, err := ref.DemuxStream(img, nil)
	if err != nil || din.Movie == nil {
		panic(sim.HarnessAbort{Msg: fmt.Sprintf("input %s not readable by the reference: %v", name, err)})
	}
	for _, tr := range din.Movie.Tracks {
		var durs []uint32
		syncs := 0
		for i, sm := range tr.Samples {
			if i < 24 {
				durs = append(durs, sm.Dur)
			}
			if sm.Sync {
				syncs++
			}
		}
		r.Logf("  track %d %s ts=%d samples=%d syncs=%d stss=%v ctts=%v chunks=%d first durs=%v", tr.ID, tr.Handler, tr.Timescale, len(tr.Samples), syncs, tr.HasStss, tr.HasCtts, len(tr.ChunkOffsets), durs)
	}
	// ---- reference track and requested duration
	refIdx := -1
	for _, h := range []string{"vide", "soun"} {
		for i, tr := range din.Movie.Tracks {
			if refIdx < 0 && tr.Handler == h {
				refIdx = i
			}
		}
	}
	if refIdx < 0 {
		return
	}
	rt := din.Movie.Tracks[refIdx]
	var totalRef uint64
	for _, s := range rt.Samples {
		totalRef += uint64(s.Dur)
	}
	totalMS := int(totalRef * 1000 / uint64(rt.Timescale))
	var durMS int
	switch t.Draw(5) {
	case 0:
		durMS = 1 + t.Draw(totalMS+1)
	case 1: // around a sample boundary
		if len(rt.Samples) > 0 {
			s := rt.Samples[t.Draw(len(rt.Samples))]
			durMS = int(s.Dts*1000/uint64(rt.Timescale)) + t.Draw(3) - 1
		}
	case 2:
		durMS = totalMS + t.Draw(2000) - 1000
		r.Probe("crop-beyond-end")
	case 3:
		durMS = 1 + t.Draw(50)
	default:
		durMS = 1 + t.Draw(totalMS+500)
	}
	if durMS < 1 {
		durMS = 1
	}
	// ---- disk, decode lazily as run() does, crop
	cfg := sim.DrawDelivery(t)
	faulty := t.Chance(250)
	if c08 {
		faulty = false
	}
	sink := sim.NewSink(r)
	if faulty {
		switch t.Draw(5) {
		case 0:
			cfg.ErrAtOp = 1 + t.Draw(120)
			cfg.ErrPart = t.Bool()
		case 1:
			cfg.SeekErrAt = 1 + t.Draw(12)
		case 2:
			cfg.TruncAt = int64(t.Draw(len(img)))
		case 3:
			sink.FailAtOp = 1 + t.Draw(30)
		case 4:
			sink.Capacity = t.Draw(len(img))
		}
	}
	r.Logf("input=%s len=%d durationMS=%d delivery=%+v sinkFailAt=%d sinkCap=%d", name, len(img), durMS, cfg, sink.FailAtOp, sink.Capacity)
	r.Event("in", int(sim.HashString(name)&0xffff), durMS)
	h := sim.NewHandle(r, name, img, cfg)
	var f *mp4.File
	r.Guard("DecodeFile(lazy)", func() { f, err = mp4.DecodeFile(h, mp4.WithDecodeMode(mp4.DecModeLazyMdat)) })
	if err != nil {
		if !faulty {
			r.Violate("c10-decode", "lazy decode of the input failed without any fault: %v", err)
		}
		return
	}
	// a panic is not a success: the statement ("when mp4ff-crop succeeds") demands nothing then
	panicked := false
	func() {
		defer func() {
			if rec := recover(); rec != nil {
				if _, ok := rec.(sim.HarnessAbort); ok {
					panic(rec)
				}
				panicked = true
				err = fmt.Errorf("panic: %v", rec)
			}
		}()
		err = cropMP4(f, durMS, sink, h)
	}()
	if panicked {
		r.Probe("crop-panicked(no claim)")
	}
	r.Logf("cropMP4 -> err=%v, %d bytes written", err, sink.N)
	if err != nil {
		r.Probe("crop-failed")
		r.Event("crop-failed")
		return // the statement is conditional on success
	}
	r.Probe("crop-succeeded")
	if sink.Failed {
		r.Violate("c10-swallowed-write-error", "cropMP4 returned nil although the output sink failed")
		return
	}
	vsimCheckCrop(r, img, din, refIdx, durMS, sink.Buf)
	if !c08 {
		return
	}
	// C08: the same crop from a fully decoded file must write the same bytes
	var fe *mp4.File
	r.Guard("DecodeFile(in memory)", func() { fe, err = mp4.DecodeFile(bytes.NewReader(img)) })
	if err != nil {
		r.Violate("c08c-decode", "in-memory decode failed where lazy decode succeeded: %v", err)
		return
	}
	sink2 := sim.NewSink(nil)
	func() {
		defer func() {
			if rec := recover(); rec != nil {
				if _, ok := rec.(sim.HarnessAbort); ok {
					panic(rec)
				}
				err = fmt.Errorf("panic: %v", rec)
			}
		}()
		err = cropMP4(fe, durMS, sink2, bytes.NewReader(img))
	}()
	if err != nil {
		// the tool itself never crops a fully decoded file; the in-memory CopyData rejects an EMPTY range that starts at
		// the end of the payload (an all-empty chunk placed last), which is not a "valid range" in the statement's
		// sense: no claim (valid ranges are compared directly in the library world)
		r.Probe("crop-from-memory-failed(no claim)")
		r.Logf("cropping the fully decoded file failed: %v", err)
		return
	}
	if !bytes.Equal(sink.Buf, sink2.Buf) {
		r.Violate("c08c-crop-differs", "crop output from the lazily decoded file (%d bytes) differs from the output from the fully decoded file (%d bytes)", len(sink.Buf), len(sink2.Buf))
	}
	r.Probe("crop-lazy-vs-memory-compared")
}

// vsimCheckCrop is the oracle: the statement, computed with exact integer cross-multiplication on the reference expansion.
func vsimCheckCrop(r *sim.Run, img []byte, din *ref.Demux, refIdx, durMS int, out []byte) {
	rt := din.Movie.Tracks[refIdx]
	// end time: start of the first sync sample of the reference track at or after durMS/1000 s
	endIdx := -1
	for i, s := range rt.Samples {
		if s.Sync && s.Dts*1000 >= uint64(durMS)*uint64(rt.Timescale) {
			endIdx = i
			break
		}
	}
	if endIdx < 0 {
		r.Probe("no-sync-sample-at-or-after-duration(no claim)")
		return
	}
	E := rt.Samples[endIdx].Dts // in rt.Timescale units
	dout, err := ref.DemuxStream(out, nil)
	if err != nil || dout.Movie == nil {
		r.Violate("c10-output-unreadable", "cropMP4 succeeded but the output is not a readable progressive file: %v", err)
		return
	}
	if len(dout.Fragments) > 0 || dout.Movie.HasMvex {
		r.Violate("c10-output-unreadable", "output is not progressive")
	}
	var fo *mp4.File
	r.Guard("DecodeFile(output)", func() { fo, err = mp4.DecodeFile(bytes.NewReader(out)) })
	if err != nil || fo == nil || fo.IsFragmented() {
		r.Violate("c10-output-undecodable", "the library cannot decode the cropped file as progressive: %v", err)
		return
	}
	if len(dout.Movie.Tracks) != len(din.Movie.Tracks) {
		r.Violate("c10-tracks", "output has %d tracks, input %d", len(dout.Movie.Tracks), len(din.Movie.Tracks))
		return
	}
	var mdat *ref.Box
	for _, b := range dout.Top {
		if b.Type == "mdat" && b.Size > b.Hdr {
			mdat = b
		}
	}
	var totalBytes int64
	countsOK := true
	for ti, it := range din.Movie.Tracks {
		ot := dout.Movie.Tracks[ti]
		k := 0
		for _, s := range it.Samples {
			if s.Dts*uint64(rt.Timescale) < E*uint64(it.Timescale) {
				k++
			}
		}
		if len(ot.Samples) != k {
			r.Violate("c10-sample-count", "track %d: output has %d samples, the statement gives k=%d (end time %d/%d s = start of reference-track sync sample %d, requested %d ms)", it.ID, len(ot.Samples), k, E, rt.Timescale, endIdx+1, durMS)
			countsOK = false
			continue
		}
		for i := 0; i < k; i++ {
			a, b := it.Samples[i], ot.Samples[i]
			ab, bb := a.Bytes(img), b.Bytes(out)
			switch {
			case bb == nil:
				r.Violate("c10-offset", "track %d sample %d: offset %d+%d lies outside the output file", it.ID, i+1, b.Offset, b.Size)
			case b.Size == 0:
				// an empty sample occupies no byte: its offset is not constrained
			case mdat == nil || b.Offset < mdat.Payload() || b.Offset+int64(b.Size) > mdat.End():
				r.Violate("c10-offset", "track %d sample %d: offset %d is outside the new mdat payload", it.ID, i+1, b.Offset)
			case !bytes.Equal(ab, bb):
				r.Violate("c10-bytes", "track %d sample %d: bytes differ from the input sample (size %d vs %d)", it.ID, i+1, len(bb), len(ab))
			case a.Dur != b.Dur:
				r.Violate("c10-duration", "track %d sample %d: duration %d, input %d", it.ID, i+1, b.Dur, a.Dur)
			case a.Cto != b.Cto:
				r.Violate("c10-cto", "track %d sample %d: composition offset %d, input %d", it.ID, i+1, b.Cto, a.Cto)
			case a.Sync != b.Sync:
				r.Violate("c10-sync", "track %d sample %d: sync %v, input %v", it.ID, i+1, b.Sync, a.Sync)
			}
			totalBytes += int64(b.Size)
		}
		if ot.TkhdDur > it.TkhdDur || ot.MdhdDur > it.MdhdDur {
			r.Violate("c10-header-duration", "track %d: tkhd/mdhd duration %d/%d exceeds the original %d/%d", it.ID, ot.TkhdDur, ot.MdhdDur, it.TkhdDur, it.MdhdDur)
		}
	}
	if dout.Movie.Duration > din.Movie.Duration {
		r.Violate("c10-header-duration", "mvhd duration %d exceeds the original %d", dout.Movie.Duration, din.Movie.Duration)
	}
	if !countsOK {
		return
	}
	if mdat != nil && mdat.Size-mdat.Hdr != totalBytes {
		r.Violate("c10-mdat-size", "new mdat payload is %d bytes, the kept samples total %d", mdat.Size-mdat.Hdr, totalBytes)
	}
	if mdat == nil && totalBytes > 0 {
		r.Violate("c10-mdat-size", "no mdat in the output although %d sample bytes are kept", totalBytes)
	}
}
