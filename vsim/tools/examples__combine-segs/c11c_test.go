//go:build go1.21

package main

import (
	"bytes"
	"fmt"
	"os"
	"path/filepath"
	"testing"

	_ "github.com/Eyevinn/mp4ff/internal/vsim/props"
	"github.com/Eyevinn/mp4ff/internal/vsim/ref"
	"github.com/Eyevinn/mp4ff/internal/vsim/sim"
	"github.com/Eyevinn/mp4ff/internal/vsim/work"
)

// TestVsimEntry is the entry point of the C11c (combine-segs) tool harness.
func TestVsimEntry(t *testing.T) {
	if os.Getenv("VSIM_MODE") == "" {
		t.Skip("vsim tool harness: not invoked by the simulator")
	}
	p := sim.Lookup("C11c")
	p.Setup = vsimSetup
	p.Run = vsimRun
	os.Exit(sim.ToolEntry())
}

func vsimSetup() error {
	if err := work.SetupPackager(); err != nil {
		return err
	}
	if dn, err := os.OpenFile(os.DevNull, os.O_WRONLY, 0); err == nil {
		os.Stdout = dn
	}
	return nil
}

func vsimRun(r *sim.Run) {
	t := r.T
	nTracks := 2 + t.Draw(2)
	nSegs := 1 + t.Draw(3)
	var prods []*work.Production
	for i := 0; i < nTracks; i++ {
		var p *work.Production
		var err error
		r.Guard("packager", func() {
			// one fragment per segment, payload inside the fragment: what combine-segs documents
			p, err = work.Package(r, work.PackOpts{MaxTracks: 1, MaxSegs: nSegs, MinSegs: nSegs, MaxFrags: 1, MaxSamples: 8, NoMeta: true, LargeMdat: true, Styp: []int{1, 2}[t.Draw(2)]})
		})
		if err != nil || p == nil {
			r.Violate("packager-error", "a documented-valid API history failed: %v", err)
			return
		}
		prods = append(prods, p)
	}
	dir, err := os.MkdirTemp("", "vsim-c11c")
	if err != nil {
		panic(sim.HarnessAbort{Msg: err.Error()})
	}
	defer os.RemoveAll(dir)
	ids := make([]uint32, nTracks)
	var initFiles []string
	for i, p := range prods {
		ids[i] = uint32(i + 1)
		fn := filepath.Join(dir, fmt.Sprintf("t%d_init.mp4", i))
		if err := os.WriteFile(fn, p.InitBytes, 0o644); err != nil {
			panic(sim.HarnessAbort{Msg: err.Error()})
		}
		initFiles = append(initFiles, fn)
	}
	r.NonTriv = true
	r.Event("combine", nTracks, nSegs)
	r.Logf("combine %d single-track productions x %d segments", nTracks, nSegs)
	var initOut bytes.Buffer
	panicked := false
	call := func(f func() error) error {
		var err error
		func() {
			defer func() {
				if rec := recover(); rec != nil {
					if _, ok := rec.(sim.HarnessAbort); ok {
						panic(rec)
					}
					panicked = true
					err = fmt.Errorf("panic: %v", rec)
				}
			}()
			err = f()
		}()
		return err
	}
	err = call(func() error {
		ci, err := combineInitSegments(initFiles, ids)
		if err != nil {
			return err
		}
		return ci.Encode(&initOut)
	})
	if err != nil {
		r.Probe("combine-failed(no claim)")
		r.Logf("combineInitSegments failed: %v (panicked=%v)", err, panicked)
		return
	}
	di, err := ref.DemuxStream(initOut.Bytes(), nil)
	if err != nil || di.Movie == nil || len(di.Movie.Tracks) != nTracks {
		r.Violate("c11-combine-init", "combined init unreadable or wrong track count: %v", err)
		return
	}
	for i := range prods {
		if di.Movie.Tracks[i].ID != ids[i] || di.Movie.Trex[ids[i]] == nil {
			r.Violate("c11-combine-init", "combined init: track %d has id %d / trex missing", i, di.Movie.Tracks[i].ID)
		}
	}
	pdi := make([]*ref.Demux, len(prods)) // reference view of every input init (trex defaults)
	for i, p := range prods {
		d, err := ref.DemuxStream(p.InitBytes, nil)
		if err != nil || d.Movie == nil {
			panic(sim.HarnessAbort{Msg: "input init not readable by the reference"})
		}
		pdi[i] = d
	}
	for si := 0; si < nSegs; si++ {
		var files []string
		for i, p := range prods {
			fn := filepath.Join(dir, fmt.Sprintf("t%d_%d.m4s", i, si))
			segBytes := p.Segs[si].Bytes
			if t.Chance(200) {
				// media data with bytes no sample refers to (in front of the first sample and/or after the last one);
				// validated against the reference demuxer: every sample is still found with its bytes
				if nb, err := work.PadMdat(segBytes, t.Draw(3)*(1+t.Draw(16)), t.Draw(3)*(1+t.Draw(16))); err == nil {
					dp, err := ref.DemuxStream(nb, pdi[i].Movie.Trex)
					ok := err == nil
					if ok {
						fr := p.Segs[si].Frags[0]
						want := p.Log[0][fr.From[0]:fr.To[0]]
						got := dp.TrackSamples(1)
						ok = len(got) == len(want)
						for k := 0; ok && k < len(want); k++ {
							ok = bytes.Equal(got[k].Bytes(nb), want[k].Data)
						}
					}
					if !ok {
						panic(sim.HarnessAbort{Msg: "padded mdat variant is not consistent"})
					}
					segBytes = nb
					r.Probe("input-mdat-with-unreferenced-bytes")
				}
			}
			if err := os.WriteFile(fn, segBytes, 0o644); err != nil {
				panic(sim.HarnessAbort{Msg: err.Error()})
			}
			files = append(files, fn)
		}
		var segOut bytes.Buffer
		err = call(func() error {
			cs, err := combineMediaSegments(files, ids)
			if err != nil {
				return err
			}
			return cs.Encode(&segOut)
		})
		if err != nil {
			r.Probe("combine-failed(no claim)")
			r.Logf("combineMediaSegments(%d) failed: %v", si, err)
			return
		}
		d, err := ref.DemuxStream(segOut.Bytes(), di.Movie.Trex)
		if err != nil {
			r.Violate("c11-output-unreadable", "combined segment %d unreadable: %v", si, err)
			return
		}
		for i, p := range prods {
			fr := p.Segs[si].Frags[0]
			want := p.Log[0][fr.From[0]:fr.To[0]]
			got := d.TrackSamples(ids[i])
			who := fmt.Sprintf("combined segment %d track %d", si, ids[i])
			if len(got) != len(want) {
				r.Violate("c11-combine-count", "%s: %d samples, %d in the single-track segment", who, len(got), len(want))
				continue
			}
			for k := range want {
				g := got[k]
				switch {
				case !bytes.Equal(g.Bytes(segOut.Bytes()), want[k].Data):
					r.Violate("c11-combine-bytes", "%s sample %d: bytes differ", who, k+1)
				case g.Dur != want[k].Dur:
					r.Violate("c11-combine-duration", "%s sample %d: duration %d, was %d", who, k+1, g.Dur, want[k].Dur)
				case g.Flags != want[k].Flags:
					r.Violate("c11-combine-flags", "%s sample %d: flags %#x, was %#x", who, k+1, g.Flags, want[k].Flags)
				case g.Cto != want[k].Cto:
					r.Violate("c11-combine-cto", "%s sample %d: composition offset %d, was %d", who, k+1, g.Cto, want[k].Cto)
				case g.Dts != want[k].Dts:
					r.Violate("c11-combine-dts", "%s sample %d: decode time %d, was %d", who, k+1, g.Dts, want[k].Dts)
				}
			}
		}
	}
	r.Probe("combine-checked")
}
