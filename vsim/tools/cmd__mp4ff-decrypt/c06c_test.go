//go:build go1.21

package main

import (
	"bytes"
	"encoding/hex"
	"fmt"
	"os"
	"path/filepath"
	"testing"

	"github.com/Eyevinn/mp4ff/internal/vsim/props"
	"github.com/Eyevinn/mp4ff/internal/vsim/sim"
)

// TestVsimEntry is the entry point of the C06c (mp4ff-decrypt inner function) tool harness.
func TestVsimEntry(t *testing.T) {
	if os.Getenv("VSIM_MODE") == "" {
		t.Skip("vsim tool harness: not invoked by the simulator")
	}
	p := sim.Lookup("C06c")
	p.Setup = func() error {
		if err := props.C06Setup(); err != nil {
			return err
		}
		if dn, err := os.OpenFile(os.DevNull, os.O_WRONLY, 0); err == nil {
			os.Stdout = dn
		}
		return nil
	}
	p.Run = vsimRun
	os.Exit(sim.ToolEntry())
}

// vsimDecrypt calls the tool's decryptFile between simulated input streams and a simulated sink.
func vsimDecrypt(r *sim.Run, what string, in, initBytes, key []byte, faulty bool) (out []byte, claim bool) {
	t := r.T
	cfg := sim.DrawDelivery(t)
	icfg := sim.DrawDelivery(t)
	sink := sim.NewSink(r)
	if faulty {
		switch t.Draw(4) {
		case 0:
			cfg.ErrAtOp = 1 + t.Draw(60)
			cfg.ErrPart = t.Bool()
		case 1:
			sink.FailAtOp = 1 + t.Draw(20)
		case 2:
			sink.Capacity = t.Draw(len(in) + 1)
		case 3:
			icfg.ErrAtOp = 1 + t.Draw(20)
		}
	}
	// every delivery hands out a fresh buffer (decryption works in place on what was decoded)
	h := sim.NewHandle(r, what, append([]byte(nil), in...), cfg)
	var ih *sim.Handle
	var err error
	func() {
		defer func() {
			if rec := recover(); rec != nil {
				if _, ok := rec.(sim.HarnessAbort); ok {
					panic(rec)
				}
				err = fmt.Errorf("panic: %v", rec)
			}
		}()
		if initBytes != nil {
			ih = sim.NewHandle(r, "init", append([]byte(nil), initBytes...), icfg)
			err = decryptFile(sim.StreamReader{H: h}, sim.StreamReader{H: ih}, sink, key)
		} else {
			err = decryptFile(sim.StreamReader{H: h}, nil, sink, key)
		}
	}()
	failed := h.Failed || sink.Failed || (ih != nil && ih.Failed)
	r.Logf("decryptFile(%s, %d bytes, separate init=%v) -> err=%v, %d bytes out (fault fired=%v)", what, len(in), initBytes != nil, err, sink.N, failed)
	if err != nil {
		if !failed {
			r.Violate("c06-tool-error", "mp4ff-decrypt failed on a valid encrypted %s without any injected fault: %v", what, err)
		}
		r.Probe("decrypt-tool-failed(no claim)")
		return nil, false
	}
	if failed {
		r.Violate("c06-swallowed-io-error", "mp4ff-decrypt returned nil although an input or the output sink failed")
		return nil, false
	}
	return sink.Buf, true
}

func vsimRun(r *sim.Run) {
	t := r.T
	rnd := t.Sub()
	scheme := []string{"cenc", "cbcs"}[t.Draw(2)]
	key := make([]byte, 16)
	rnd.Fill(key)
	iv := props.C06RandIV(t, rnd)
	var p *props.C06Prod
	var err error
	r.Guard("producer+encryptor", func() { p, err = props.C06Produce(r, scheme, key, iv) })
	if err != nil || p == nil {
		r.Violate("c06-encrypt-error", "encrypting a clear %s track failed: %v", scheme, err)
		return
	}
	r.NonTriv = true
	faulty := t.Chance(250)
	var allFrs []props.C06Frag
	for _, f := range p.Frags {
		allFrs = append(allFrs, f...)
	}
	if t.Bool() {
		enc := append([]byte(nil), p.EncInit...)
		clear := append([]byte(nil), p.ClearInit...)
		for i := range p.EncSegs {
			enc = append(enc, p.EncSegs[i]...)
			clear = append(clear, p.ClearSegs[i]...)
		}
		r.Event("tool-whole")
		if t.Chance(80) {
			// the tool's own run() on real files; the output path already holds an older, longer output (a second run
			// into the same path): what is there afterwards must be exactly this run's output
			dir, err := os.MkdirTemp("", "vsim-c06c")
			if err != nil {
				panic(sim.HarnessAbort{Msg: err.Error()})
			}
			defer os.RemoveAll(dir)
			in, outp := filepath.Join(dir, "in.mp4"), filepath.Join(dir, "out.mp4")
			old := make([]byte, len(enc)+1+t.Draw(4096))
			for i := range old {
				old[i] = 0x5a
			}
			if os.WriteFile(in, enc, 0o644) != nil || os.WriteFile(outp, old, 0o644) != nil {
				panic(sim.HarnessAbort{Msg: "scratch files"})
			}
			var rerr error
			func() {
				defer func() {
					if rec := recover(); rec != nil {
						rerr = fmt.Errorf("panic: %v", rec)
					}
				}()
				rerr = run([]string{"mp4ff-decrypt", "-key", hex.EncodeToString(key), in, outp})
			}()
			if rerr != nil {
				r.Violate("c06-tool-error", "mp4ff-decrypt run() failed on a valid encrypted file: %v", rerr)
				return
			}
			out, err := os.ReadFile(outp)
			if err != nil {
				panic(sim.HarnessAbort{Msg: err.Error()})
			}
			r.Probe("run()-into-existing-output")
			props.C06Check(r, p, "whole file via mp4ff-decrypt run() into an existing output file", clear, out, allFrs, true, false)
			return
		}
		out, claim := vsimDecrypt(r, "file", enc, nil, key, faulty)
		if claim {
			props.C06Check(r, p, "whole file via mp4ff-decrypt", clear, out, allFrs, true, false)
		}
		return
	}
	// media segments on their own, each with the separately delivered init, in seeded order with repeats
	n := len(p.EncSegs) + t.Draw(2)
	for k := 0; k < n; k++ {
		si := k
		if k >= len(p.EncSegs) || t.Chance(400) {
			si = t.Draw(len(p.EncSegs))
			r.Fault("segment-reordered")
		}
		r.Event("tool-seg", si)
		out, claim := vsimDecrypt(r, fmt.Sprintf("segment %d", si), p.EncSegs[si], p.EncInit, key, faulty && t.Chance(400))
		if claim {
			if bytes.Contains(out, []byte("moov")) {
				r.Probe("init-written-with-segment")
			}
			props.C06Check(r, p, fmt.Sprintf("segment %d via mp4ff-decrypt -init", si), p.ClearSegs[si], out, p.Frags[si], false, false)
		}
	}
}
