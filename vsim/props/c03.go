//go:build go1.21

package props

import (
	"bytes"
	"encoding/binary"
	"fmt"

	"github.com/Eyevinn/mp4ff/bits"
	"github.com/Eyevinn/mp4ff/internal/vsim/ref"
	"github.com/Eyevinn/mp4ff/internal/vsim/sim"
	"github.com/Eyevinn/mp4ff/internal/vsim/work"
	"github.com/Eyevinn/mp4ff/mp4"
)

// C03 — the two decoders and the two encoders are interchangeable.
// One path of each pair IS the stream path: the simulator owns how the reader delivers, where the
// stream ends or fails, the capacity imposed on both sinks, and (through the unit transport) the
// order/duplication/insertion of boxes that makes the separately written loops diverge.

func encodeBoxTree(r *sim.Run, f *mp4.File) ([]byte, error) {
	old := f.FragEncMode
	f.FragEncMode = mp4.EncModeBoxTree
	defer func() { f.FragEncMode = old }()
	var buf bytes.Buffer
	var err error
	if perr := noPanic(r, func() { err = f.Encode(&buf) }); perr != nil {
		return nil, perr
	}
	return buf.Bytes(), err
}

// noPanic runs f; a library panic counts as "this path does not accept the input" (crashes on odd
// input are C04's subject; here only interchangeability is decided).
func noPanic(r *sim.Run, f func()) (perr error) {
	defer func() {
		if rec := recover(); rec != nil {
			switch rec.(type) {
			case sim.HarnessAbort:
				panic(rec)
			}
			if _, ok := rec.(error); !ok {
				if _, ok := rec.(string); !ok {
					panic(rec) // stopRun and friends
				}
			}
			r.Probe("library-panicked(counted-as-reject/failure)")
			perr = fmt.Errorf("panic: %v", rec)
		}
	}()
	f()
	return nil
}

func c03DecodeSR(r *sim.Run, x []byte) (f *mp4.File, err error) {
	if perr := noPanic(r, func() { f, err = mp4.DecodeFileSR(bits.NewFixedSliceReader(x)) }); perr != nil {
		return nil, perr
	}
	return
}

func c03DecodeRd(r *sim.Run, x []byte, cfg sim.ReadCfg) (f *mp4.File, h *sim.Handle, err error) {
	h = sim.NewHandle(r, "stream", x, cfg)
	if perr := noPanic(r, func() { f, err = mp4.DecodeFile(sim.StreamReader{H: h}) }); perr != nil {
		return nil, h, perr
	}
	return
}

// c03Grouping summarises segment/fragment grouping and start positions.
func c03Grouping(f *mp4.File) string {
	s := fmt.Sprintf("frag=%v init=%v segs=%d:", f.IsFragmented(), f.Init != nil, len(f.Segments))
	for _, sg := range f.Segments {
		s += fmt.Sprintf(" [@%d styp=%v sidx=%d", sg.StartPos, sg.Styp != nil, len(sg.Sidxs))
		for _, fr := range sg.Fragments {
			mp := int64(-1)
			if fr.Moof != nil {
				mp = int64(fr.Moof.StartPos)
			}
			s += fmt.Sprintf(" (@%d moof@%d ch=%d)", fr.StartPos, mp, len(fr.Children))
		}
		s += "]"
	}
	return s
}

func c03Equiv(r *sim.Run, class, what string, a, b *mp4.File) {
	if ga, gb := c03Grouping(a), c03Grouping(b); ga != gb {
		r.Violate(class+"-grouping", "%s: grouping/start positions differ:\n  %s\n  %s", what, ga, gb)
		return
	}
	if d := deepEquiv(a, b); d != "" {
		r.Violate(class+"-structure", "%s: structures differ at %s", what, d)
	}
}

var c03Streams [][]byte
var c03Names []string

func c03Setup() error {
	if err := setupObjects(); err != nil {
		return err
	}
	for _, cf := range objCorpus {
		c03Streams = append(c03Streams, cf.Data)
		c03Names = append(c03Names, cf.Name)
	}
	// protected multi-track files with the sinf box of one track removed (sizes repaired)
	for _, nm := range []string{"cbcs.mp4", "prog_8s_enc_dashinit.mp4", "cbcs_audio.mp4"} {
		if cf := work.ByName(nm); cf != nil {
			for k := 0; k < 2; k++ {
				if nd, err := work.DropSinf(cf.Data, k); err == nil {
					c03Streams = append(c03Streams, nd)
					c03Names = append(c03Names, fmt.Sprintf("%s-without-sinf-of-trak-%d", nm, k))
					c03Extra++
				}
			}
		}
	}
	// every box of every corpus file, at any depth, as a box-level input (at most 6 distinct instances per type, <= 8 KiB)
	perType := map[string]int{}
	seen := map[string]bool{}
	c, _ := work.LoadCorpus()
	for _, cf := range c {
		top, err := ref.Walk(cf.Data, 0, int64(len(cf.Data)), true)
		if err != nil {
			continue
		}
		for _, b := range ref.Flatten(top) {
			if b.Size > 8192 || b.Size < 8 || perType[b.Type] >= 6 {
				continue
			}
			raw := cf.Data[b.Start:b.End()]
			if seen[string(raw)] {
				continue
			}
			seen[string(raw)] = true
			perType[b.Type]++
			c03RealBoxes = append(c03RealBoxes, raw)
		}
	}
	rd, sr, _ := mp4.VsimDecoderKeys()
	if fmt.Sprint(rd) != fmt.Sprint(sr) {
		// reported by every run (cheap) so that it has a replay file
		c03KeyMismatch = fmt.Sprintf("reader-path decoders %v vs slice-path decoders %v", diffKeys(rd, sr), diffKeys(sr, rd))
	}
	return nil
}

var c03KeyMismatch string

// c03Extra counts the derived streams appended to c03Streams after the corpus files (objCorpus has no entry for them).
var c03Extra int

// c03RealBoxes: boxes cut out of the corpus files at any depth (box-level decoder inputs).
var c03RealBoxes [][]byte

func diffKeys(a, b []string) []string {
	m := map[string]bool{}
	for _, k := range b {
		m[k] = true
	}
	var out []string
	for _, k := range a {
		if !m[k] {
			out = append(out, k)
		}
	}
	return out
}

func c03Run(r *sim.Run) {
	t := r.T
	if c03KeyMismatch != "" {
		r.Violate("c03-decoder-tables", "box types registered in only one of the two decoder tables: %s", c03KeyMismatch)
	}
	if t.Chance(350) {
		c03Encoders(r)
		return
	}
	if t.Chance(200) {
		c03LeafBox(r)
		return
	}
	// ---- the byte string X
	var x []byte
	name := ""
	if t.Chance(250) {
		var p *work.Production
		var err error
		r.Guard("packager", func() {
			p, err = work.Package(r, work.PackOpts{MaxTracks: 2, MaxSegs: 3, MaxFrags: 2, MaxSamples: 4, Foreign: true})
		})
		if err != nil {
			r.Violate("packager-error", "a documented-valid API history failed: %v", err)
		}
		x = p.Stream()
		name = "packager-stream"
	} else if t.Chance(80) {
		p, err := work.RawProduceOpt(r, 2, 3, 2, 4, t.Bool(), true)
		if err != nil {
			panic(sim.HarnessAbort{Msg: "raw fragment producer: " + err.Error()})
		}
		x, name = p.Stream(), "raw-fragment-stream"
		r.Probe("raw-fragment-production")
	} else if t.Chance(120) {
		// an init segment built by a seeded AddEmptyTrack/Set*Descriptor history (ac-3, ec-3, stpp, wvtt, hev1 ... entries)
		var init *mp4.InitSegment
		var err error
		r.Guard("init history", func() { init, _, err = c19Build(r) })
		if err != nil || init == nil {
			return
		}
		s := sim.NewSink(nil)
		if err := init.Encode(s); err != nil {
			return
		}
		x, name = s.Buf, "built-init"
	} else if t.Chance(80) {
		x = c03TwoProtectedTracks(r)
		if x == nil {
			return
		}
		name = "two-protected-tracks"
	} else if len(c06Sources) > 0 && t.Chance(70) {
		// protected media segments on their own (no init: the decoders cannot consult tenc / the track list)
		rnd := t.Sub()
		key := make([]byte, 16)
		rnd.Fill(key)
		var p *C06Prod
		var err error
		r.Guard("producer+encryptor", func() { p, err = c06Produce(r, []string{"cenc", "cbcs"}[t.Draw(2)], key, randIV(t, rnd)) })
		if err != nil || p == nil {
			return
		}
		for _, sg := range p.EncSegs {
			x = append(x, sg...)
		}
		name = "protected-segments-without-init"
		r.Probe("protected-segments-without-init")
	} else {
		i := t.Draw(len(c03Streams))
		x, name = c03Streams[i], c03Names[i]
		if i < len(objCorpus) && objCorpus[i].Progressive && t.Chance(250) {
			v := work.LayoutVariant{LargeMdat: t.Bool(), MdatFirst: t.Bool(), EmptyMdat: t.Draw(4), EmptyLarge: t.Bool()}
			if nd, err := work.ApplyLayout(x, v); err == nil {
				x, name = nd, name+"["+v.String()+"]"
				r.Probe("layout-variant")
			}
		}
	}
	if t.Chance(450) || name == "built-init" {
		units, err := work.ParseUnits(x)
		if err == nil {
			deep := t.Chance(400) || name == "built-init" || name == "protected-segments-without-init"
			ops := work.Transport(r, &units, 1+t.Draw(2), deep, []string{"splice", "dup", "swap", "move", "drop", "largesize", "version"})
			x = work.Serialize(units, true)
			r.Logf("unit transport on %s: %v -> %d bytes", name, ops, len(x))
			name += "+transport"
		}
	}
	r.Event("x", int(sim.HashString(name)&0xffff), len(x)&0xffff)
	r.Logf("X=%s len=%d", name, len(x))
	// ---- the two decoders on X
	fs, errS := c03DecodeSR(r, x)
	fr, _, errR := c03DecodeRd(r, x, sim.PlainCfg())
	canonS, canonR := false, false
	if errS == nil {
		if out, err := encodeBoxTree(r, fs); err == nil && bytes.Equal(out, x) {
			canonS = true
		}
	}
	if errR == nil {
		if out, err := encodeBoxTree(r, fr); err == nil && bytes.Equal(out, x) {
			canonR = true
		}
	}
	r.Logf("slice path: err=%v canonical=%v; reader path: err=%v canonical=%v", errS, canonS, errR, canonR)
	r.Event("accept", btoi(errS == nil), btoi(canonS), btoi(errR == nil), btoi(canonR))
	if canonS {
		r.Probe("canonical-X")
		if errR != nil {
			r.Violate("c03-reader-rejects", "%s: the slice path decodes X and re-encodes it exactly, the reader path rejects it: %v", name, errR)
		}
	}
	if canonR {
		r.Probe("canonical-X")
		if errS != nil {
			r.Violate("c03-slice-rejects", "%s: the reader path decodes X and re-encodes it exactly, the slice path rejects it: %v", name, errS)
		}
	}
	if (canonS || canonR) && errS == nil && errR == nil {
		c03Equiv(r, "c03-paths", name+": reader path vs slice path", fr, fs)
	}
	if errR != nil {
		return
	}
	// ---- (a) reader path under seeded legal delivery equals itself under plain delivery
	cfg := sim.DrawDelivery(t)
	fd, _, errD := c03DecodeRd(r, x, cfg)
	if errD != nil {
		r.Violate("c03-delivery-error", "%s: reader path fails under a legal delivery schedule %+v: %v (plain delivery succeeds)", name, cfg, errD)
	} else {
		c03Equiv(r, "c03-delivery", name+": reader path under seeded delivery vs plain delivery", fd, fr)
	}
	// ---- (b) stream cut at byte b, or failing at read k
	top, _ := ref.TopLevel(x)
	switch t.Draw(3) {
	case 0:
	case 1:
		var b int
		if len(top) > 1 && t.Bool() {
			b = int(top[t.Draw(len(top))].Start) // a top-level box boundary (may be 0)
			r.Probe("cut-on-box-boundary")
		} else {
			b = t.Draw(len(x))
		}
		c := sim.DrawDelivery(t)
		c.TruncAt = int64(b)
		fc, _, errC := c03DecodeRd(r, x, c)
		r.Logf("stream cut at %d: reader path err=%v", b, errC)
		r.Event("cut", btoi(errC == nil))
		fcs, errCS := c03DecodeSR(r, x[:b])
		if errCS == nil {
			if out, err := encodeBoxTree(r, fcs); err == nil && bytes.Equal(out, x[:b]) {
				// X[:b] is itself canonical for the slice path: the reader path must agree on it
				if errC != nil {
					r.Violate("c03-reader-rejects", "%s cut at %d: slice path decodes X[:b] and re-encodes it exactly, reader path rejects it: %v", name, b, errC)
				} else {
					c03Equiv(r, "c03-paths", fmt.Sprintf("%s cut at %d: reader vs slice", name, b), fc, fcs)
				}
			}
		}
	case 2:
		c := sim.DrawDelivery(t)
		c.ErrAtOp = 1 + t.Draw(40)
		c.ErrPart = t.Bool()
		fe, h, errE := c03DecodeRd(r, x, c)
		r.Event("eio", btoi(errE == nil))
		if errE == nil && h.Failed {
			// success although a read failed: the result must then at least equal the slice path on the delivered bytes or on X
			okFull := deepEquiv(fe, fr) == ""
			if !okFull {
				r.Violate("c03-swallowed-read-error", "%s: reader path returned success although read #%d failed, and the structure differs from the fault-free one", name, c.ErrAtOp)
			} else {
				r.Probe("read-error-after-all-data-consumed")
			}
		}
	}
}

// c03TwoProtectedTracks builds a stream with TWO protected tracks whose tenc IV sizes differ (cenc: 16, cbcs: 0 with a
// constant IV), as sequential single-track fragments after a two-track init. The state the file decoders carry from
// one traf to the next (sinf/tenc lookup per track) is what this exercises.
func c03TwoProtectedTracks(r *sim.Run) []byte {
	t := r.T
	rnd := t.Sub()
	ka, kb := make([]byte, 16), make([]byte, 16)
	rnd.Fill(ka)
	rnd.Fill(kb)
	var pa, pb *C06Prod
	var err error
	r.Guard("producer A", func() { pa, err = c06Produce(r, "cenc", ka, randIV(t, rnd)) })
	if err != nil || pa == nil {
		return nil
	}
	r.Guard("producer B", func() { pb, err = c06Produce(r, "cbcs", kb, randIV(t, rnd)) })
	if err != nil || pb == nil {
		return nil
	}
	cat := func(init []byte, segs [][]byte) []byte {
		out := append([]byte(nil), init...)
		for _, s := range segs {
			out = append(out, s...)
		}
		return out
	}
	var fa, fb *mp4.File
	r.Guard("decode A/B", func() {
		fa, err = decodeMem(cat(pa.EncInit, pa.EncSegs))
		if err == nil {
			fb, err = decodeMem(cat(pb.EncInit, pb.EncSegs))
		}
	})
	if err != nil || fa == nil || fb == nil || fa.Init == nil || fb.Init == nil || fb.Init.Moov.Mvex == nil || fb.Init.Moov.Mvex.Trex == nil {
		return nil
	}
	newID := pa.TrackID + 1
	var out []byte
	r.Guard("merge", func() {
		trakB := fb.Init.Moov.Trak
		trakB.Tkhd.TrackID = newID
		trexB := fb.Init.Moov.Mvex.Trex
		trexB.TrackID = newID
		fa.Init.Moov.AddChild(trakB)
		fa.Init.Moov.Mvex.AddChild(trexB)
		fa.Init.Moov.Mvhd.NextTrackID = newID + 1
		s := sim.NewSink(nil)
		if err = fa.Init.Encode(s); err != nil {
			return
		}
		out = s.Buf
		n := len(pa.EncSegs)
		if len(fb.Segments) > n {
			n = len(fb.Segments)
		}
		for i := 0; i < n; i++ {
			if i < len(pa.EncSegs) {
				out = append(out, pa.EncSegs[i]...)
			}
			if i < len(fb.Segments) {
				for _, fr := range fb.Segments[i].Fragments {
					fr.Moof.Traf.Tfhd.TrackID = newID
				}
				s := sim.NewSink(nil)
				if err = fb.Segments[i].Encode(s); err != nil {
					return
				}
				out = append(out, s.Buf...)
			}
		}
	})
	if err != nil {
		return nil
	}
	r.Probe("two-protected-tracks-stream")
	return out
}

var c03BoxTypes []string

// synthBox makes a box of a registered type with a seeded payload (small integers, zeros, a few random bytes):
// most box types never occur in the corpus, this is how their decoder/encoder pairs are reached.
func synthBox(t *sim.Tape, rnd *sim.Rand) []byte {
	if c03BoxTypes == nil {
		rd, _, _ := mp4.VsimDecoderKeys()
		c03BoxTypes = rd
	}
	typ := c03BoxTypes[t.Draw(len(c03BoxTypes))]
	n := []int{0, 4, 8, 12, 16, 20, 24, 32, 40, 64, 100}[t.Draw(11)] + t.Draw(4)
	pl := make([]byte, n)
	switch t.Draw(4) {
	case 0: // zeros with a version byte
		if n > 0 {
			pl[0] = byte(t.Draw(3))
		}
	case 1: // small big-endian integers
		for i := 0; i+4 <= n; i += 4 {
			pl[i+3] = byte(t.Draw(5))
		}
		if n > 0 {
			pl[0] = byte(t.Draw(2))
		}
	case 2:
		rnd.Fill(pl)
		if n >= 4 {
			pl[0], pl[1], pl[2] = byte(t.Draw(2)), 0, 0
		}
	default:
		rnd.Fill(pl)
	}
	if t.Chance(700) {
		if tp := typedPayload(typ, t, rnd); tp != nil {
			pl, n = tp, len(tp)
		}
	}
	if t.Chance(50) {
		// the 64-bit size form: correct size, or a size smaller than the 16-byte header / as if the header had 8 bytes
		sz := uint64(16 + n)
		switch t.Draw(4) {
		case 1:
			sz = uint64(8 + t.Draw(8))
		case 2:
			sz = uint64(8 + n)
		}
		out := make([]byte, 16+n)
		out[3] = 1
		copy(out[4:], typ)
		binary.BigEndian.PutUint64(out[8:], sz)
		copy(out[16:], pl)
		return out
	}
	out := make([]byte, 8+n)
	out[0], out[1], out[2], out[3] = byte((8+n)>>24), byte((8+n)>>16), byte((8+n)>>8), byte(8+n)
	copy(out[4:], typ)
	copy(out[8:], pl)
	return out
}

// typedPayload builds a size-consistent payload for the box types whose layout depends on version, flag bits and
// entry counts (written from ISO/IEC 14496-12 / 23001-7): a seeded subset of the defined flag bits, a seeded
// version, 0-3 entries with small seeded values. nil = no typed generator for this type.
func typedPayload(typ string, t *sim.Tape, rnd *sim.Rand) []byte {
	var p []byte
	u8 := func(v int) { p = append(p, byte(v)) }
	u16 := func(v int) { p = append(p, byte(v>>8), byte(v)) }
	u32 := func(v uint32) { p = append(p, byte(v>>24), byte(v>>16), byte(v>>8), byte(v)) }
	u64 := func(v uint64) { u32(uint32(v >> 32)); u32(uint32(v)) }
	val := func() uint32 { // small, boundary or random
		switch t.Draw(4) {
		case 0:
			return uint32(t.Draw(4))
		case 1:
			return uint32(t.Draw(1 << 16))
		case 2:
			return []uint32{0x7fffffff, 0x80000000, 0xffffffff, 0x02000000, 0x01010000}[t.Draw(5)]
		}
		return uint32(rnd.U64())
	}
	subset := func(bits ...uint32) uint32 {
		var f uint32
		for _, b := range bits {
			if t.Bool() {
				f |= b
			}
		}
		return f
	}
	vf := func(ver int, flags uint32) { u32(uint32(ver)<<24 | flags) }
	cnt := t.Draw(4)
	// the count field usually says cnt; sometimes it claims far more entries than the box holds
	claimed := uint32(cnt)
	if t.Chance(50) {
		claimed = []uint32{0x7fffffff, 0xffffffff, 0x40000000, 0x01000000, 3000000, 0x80000000, 0x80000001, 0x55555556}[t.Draw(8)]
	} else if t.Chance(150) {
		claimed = uint32(cnt + 1 + t.Draw(2)) // one or two more than there are
	}
	switch typ {
	case "trun":
		fl := subset(0x1, 0x4, 0x100, 0x200, 0x400, 0x800)
		vf(t.Draw(2), fl)
		u32(claimed)
		if fl&0x1 != 0 {
			u32(val())
		}
		if fl&0x4 != 0 {
			u32(val())
		}
		for i := 0; i < cnt; i++ {
			for _, b := range []uint32{0x100, 0x200, 0x400, 0x800} {
				if fl&b != 0 {
					u32(val())
				}
			}
		}
	case "tfhd":
		fl := subset(0x1, 0x2, 0x8, 0x10, 0x20, 0x10000, 0x20000)
		vf(0, fl)
		u32(1 + uint32(t.Draw(3)))
		if fl&0x1 != 0 {
			u64(uint64(val()))
		}
		for _, b := range []uint32{0x2, 0x8, 0x10, 0x20} {
			if fl&b != 0 {
				u32(val())
			}
		}
	case "meta":
		if t.Bool() {
			vf(0, 0) // ISO form: FullBox
		}
		if t.Chance(600) { // handler box (else: an empty meta box)
			hd := []byte{0, 0, 0, 33, 'h', 'd', 'l', 'r', 0, 0, 0, 0, 0, 0, 0, 0, 'm', 'd', 'i', 'r', 0, 0, 0, 0, 0, 0, 0, 0, 0, 0, 0, 0, 0}
			p = append(p, hd...)
		}
	case "colr":
		ct := []string{"nclx", "nclc", "prof", "rICC", "zzzz"}[t.Draw(5)]
		p = append(p, ct...)
		switch ct {
		case "nclx":
			u16(t.Draw(10))
			u16(t.Draw(10))
			u16(t.Draw(10))
			u8(t.Draw(2) << 7)
		case "nclc":
			u16(t.Draw(10))
			u16(t.Draw(10))
			u16(t.Draw(10))
		default:
			for i := t.Draw(12); i > 0; i-- {
				u8(t.Draw(256))
			}
		}
	case "uuid":
		tfrf := []byte{0xd4, 0x80, 0x7e, 0xf2, 0xca, 0x39, 0x46, 0x95, 0x8e, 0x54, 0x26, 0xcb, 0x9e, 0x46, 0xa7, 0x9f}
		tfxd := []byte{0x6d, 0x1d, 0x9b, 0x05, 0x42, 0xd5, 0x44, 0xe6, 0x80, 0xe2, 0x14, 0x1d, 0xaf, 0xf7, 0x57, 0xb2}
		ver := t.Draw(2)
		w := func() {
			if ver == 1 {
				u64(uint64(val()))
			} else {
				u32(val())
			}
		}
		if t.Bool() {
			p = append(p, tfrf...)
			vf(ver, 0)
			if claimed > 255 {
				claimed = 255
			}
			u8(int(claimed))
			for i := 0; i < cnt; i++ {
				w()
				w()
			}
		} else {
			p = append(p, tfxd...)
			vf(ver, 0)
			w()
			w()
		}
	case "senc":
		fl := subset(0x2)
		vf(0, fl)
		u32(claimed)
		ivLen := []int{0, 8, 16}[t.Draw(3)]
		for i := 0; i < cnt; i++ {
			for j := 0; j < ivLen; j++ {
				u8(t.Draw(256))
			}
			if fl&0x2 != 0 {
				ns := t.Draw(3)
				u16(ns)
				for j := 0; j < ns; j++ {
					u16(t.Draw(300))
					u32(val())
				}
			}
		}
	case "saiz":
		fl := subset(0x1)
		vf(0, fl)
		if fl != 0 {
			u32(val())
			u32(val())
		}
		def := t.Draw(3) * 8
		u8(def)
		u32(claimed)
		if def == 0 {
			for i := 0; i < cnt; i++ {
				u8(t.Draw(256))
			}
		}
	case "saio":
		fl := subset(0x1)
		ver := t.Draw(2)
		vf(ver, fl)
		if fl != 0 {
			u32(val())
			u32(val())
		}
		u32(claimed)
		for i := 0; i < cnt; i++ {
			if ver == 0 {
				u32(val())
			} else {
				u64(uint64(val()))
			}
		}
	case "sbgp":
		ver := t.Draw(2)
		vf(ver, 0)
		p = append(p, []string{"roll", "seig", "rap ", "zzzz"}[t.Draw(4)]...)
		if ver == 1 {
			u32(val())
		}
		u32(claimed)
		for i := 0; i < cnt; i++ {
			u32(val())
			u32(val())
		}
	case "sgpd":
		ver := t.Draw(3)
		vf(ver, 0)
		gt := []string{"roll", "rap ", "alst", "seig", "zzzz"}[t.Draw(5)]
		p = append(p, gt...)
		nat := map[string]int{"roll": 2, "rap ": 1, "alst": 4, "seig": 20, "zzzz": 1 + t.Draw(7)}[gt]
		dl := nat
		if t.Chance(300) {
			dl = 0
		}
		if ver >= 1 {
			u32(uint32(dl))
		}
		if ver >= 2 {
			u32(uint32(t.Draw(3)))
		}
		u32(claimed)
		for i := 0; i < cnt; i++ {
			if ver >= 1 && dl == 0 {
				u32(uint32(nat))
			}
			for j := 0; j < nat; j++ {
				u8(t.Draw(4))
			}
		}
	case "ssix":
		if t.Chance(100) {
			// every count as large as the box size permits: a decoder must not allocate more than the box can hold
			vf(0, 0)
			n := []int{4096, 16384, 65000}[t.Draw(3)]
			subs := (n - 8) / 8
			u32(uint32(subs))
			for len(p) < n {
				u32(uint32((n - len(p)) / 4))
			}
			return p[:n]
		}
		vf(0, 0)
		u32(claimed)
		for i := 0; i < cnt; i++ {
			rc := t.Draw(4)
			u32(uint32(rc))
			for j := 0; j < rc; j++ {
				u8(t.Draw(4))
				u8(0)
				u16(t.Draw(65536))
			}
		}
	case "subs":
		ver := t.Draw(2)
		vf(ver, subset(0x1, 0x2))
		u32(claimed)
		for i := 0; i < cnt; i++ {
			u32(val())
			sc := t.Draw(3)
			u16(sc)
			for j := 0; j < sc; j++ {
				if ver == 1 {
					u32(val())
				} else {
					u16(int(val() & 0xffff))
				}
				u8(t.Draw(256))
				u8(t.Draw(2))
				u32(val())
			}
		}
	case "ctts", "stts", "stsc", "stss", "stco", "co64":
		ver := 0
		if typ == "ctts" {
			ver = t.Draw(2)
		}
		vf(ver, 0)
		u32(claimed)
		per := map[string]int{"ctts": 2, "stts": 2, "stsc": 3, "stss": 1, "stco": 1, "co64": 2}[typ]
		for i := 0; i < cnt*per; i++ {
			u32(val())
		}
	case "stsz":
		vf(0, 0)
		sz := uint32(t.Draw(2)) * val()
		u32(sz)
		if sz != 0 {
			u32(val()) // uniform size: no table follows, so any sample count is "consistent" with the box size
		} else {
			u32(claimed)
			for i := 0; i < cnt; i++ {
				u32(val())
			}
		}
	case "avcC":
		u8(1)
		u8([]int{66, 77, 88, 100, 110, 122, 244, 44}[t.Draw(8)])
		u8(t.Draw(256))
		u8(31)
		u8(0xfc | 3)
		ns := t.Draw(3)
		u8(0xe0 | ns)
		for i := 0; i < ns; i++ {
			l := t.Draw(6)
			u16(l)
			for j := 0; j < l; j++ {
				u8(t.Draw(256))
			}
		}
		np := t.Draw(3)
		u8(np)
		for i := 0; i < np; i++ {
			l := t.Draw(6)
			u16(l)
			for j := 0; j < l; j++ {
				u8(t.Draw(256))
			}
		}
		if t.Bool() {
			u8(0xfc | t.Draw(4))
			u8(0xf8 | t.Draw(8))
			u8(0xf8 | t.Draw(8))
			u8(0)
		}
	case "pssh":
		ver := t.Draw(2)
		vf(ver, 0)
		for i := 0; i < 16; i++ {
			u8(t.Draw(256))
		}
		if ver == 1 {
			k := t.Draw(3)
			u32(uint32(k))
			for i := 0; i < 16*k; i++ {
				u8(t.Draw(256))
			}
		}
		n := t.Draw(12)
		u32(uint32(n))
		for i := 0; i < n; i++ {
			u8(t.Draw(256))
		}
	case "esds":
		vf(0, 0)
		// ES_Descriptor(3){ES_ID, flags, DecoderConfig(4){objType, streamType, bufferSize(3), maxBr, avgBr, DecSpecificInfo(5)}, SLConfig(6)}
		dsi := t.Draw(8)
		size := func(n int) {
			for k := t.Draw(3); k > 0; k-- { // seeded number of 0x80 continuation bytes
				u8(0x80)
			}
			u8(n)
		}
		u8(3)
		size(3 + 2 + 13 + 2 + dsi + 3)
		u16(t.Draw(4))
		u8(0)
		u8(4)
		size(13 + 2 + dsi)
		u8(0x40)
		u8(0x15)
		u8(0)
		u16(t.Draw(65536))
		u32(val())
		u32(val())
		u8(5)
		u8(dsi)
		for i := 0; i < dsi; i++ {
			u8(t.Draw(256))
		}
		u8(6)
		u8(1)
		u8(2)
	case "elst":
		ver := t.Draw(2)
		vf(ver, 0)
		u32(claimed)
		for i := 0; i < cnt; i++ {
			if ver == 1 {
				u64(uint64(val()))
				u64(uint64(val()))
			} else {
				u32(val())
				u32(val())
			}
			u16(t.Draw(3))
			u16(t.Draw(2))
		}
	case "sidx":
		ver := t.Draw(2)
		vf(ver, 0)
		u32(1)
		u32(1 + val()%90000)
		if ver == 0 {
			u32(val())
			u32(val())
		} else {
			u64(uint64(val()))
			u64(uint64(val()))
		}
		u16(0)
		u16(cnt)
		for i := 0; i < cnt; i++ {
			u32(val())
			u32(val())
			u32(val())
		}
	case "tfra":
		ver := t.Draw(2)
		vf(ver, 0)
		u32(1)
		l := t.Draw(64)
		u32(uint32(l))
		u32(claimed)
		for i := 0; i < cnt; i++ {
			if ver == 1 {
				u64(uint64(val()))
				u64(uint64(val()))
			} else {
				u32(val())
				u32(val())
			}
			for _, w := range []int{l >> 4 & 3, l >> 2 & 3, l & 3} {
				for k := 0; k <= w; k++ {
					u8(t.Draw(256))
				}
			}
		}
	case "emsg":
		ver := t.Draw(2)
		vf(ver, 0)
		str := func() { p = append(p, []string{"", "a", "urn:x"}[t.Draw(3)]...); u8(0) }
		if ver == 0 {
			str()
			str()
			u32(val())
			u32(val())
			u32(val())
			u32(val())
		} else {
			u32(val())
			u64(uint64(val()))
			u32(val())
			u32(val())
			str()
			str()
		}
		for i := 0; i < cnt; i++ {
			u8(t.Draw(256))
		}
	case "mvhd", "mdhd", "tkhd", "mehd", "tfdt":
		ver := t.Draw(2)
		vf(ver, subset(0x1, 0x2, 0x4))
		w := func() {
			if ver == 1 {
				u64(uint64(val()) << uint(t.Draw(2)*8))
			} else {
				u32(val())
			}
		}
		switch typ {
		case "tfdt", "mehd":
			w()
		case "mdhd":
			w()
			w()
			u32(1 + val()%90000)
			w()
			u16(t.Draw(1 << 15))
			u16(0)
		case "mvhd":
			w()
			w()
			u32(1 + val()%90000)
			w()
			u32(0x00010000)
			u16(0x0100)
			p = append(p, make([]byte, 10)...)
			for _, m := range []uint32{0x10000, 0, 0, 0, 0x10000, 0, 0, 0, 0x40000000} {
				u32(m)
			}
			p = append(p, make([]byte, 24)...)
			u32(val())
		case "tkhd":
			w()
			w()
			u32(1 + uint32(t.Draw(3)))
			u32(0)
			w()
			p = append(p, make([]byte, 8)...)
			u16(t.Draw(2))
			u16(t.Draw(2))
			u16(t.Draw(2) << 8)
			u16(0)
			for _, m := range []uint32{0x10000, 0, 0, 0, 0x10000, 0, 0, 0, 0x40000000} {
				u32(m)
			}
			u32(val())
			u32(val())
		}
	default:
		return nil
	}
	if len(p) > 0 && t.Chance(80) {
		p = p[:t.Draw(len(p))] // the box ends early, at an arbitrary byte, with consistent size fields around it
	}
	return p
}

// c03LeafBox: box-level interchangeability for every registered box type. A seeded box is normalised through one path
// (decode, re-encode); if the result is a fixed point of that path, the other path must accept it and give a
// deep-equal structure, and Encode/EncodeSW of the decoded box must agree.
func c03LeafBox(r *sim.Run) {
	t := r.T
	rnd := t.Sub()
	raw := synthBox(t, rnd)
	if len(c03RealBoxes) > 0 && t.Chance(350) {
		// a real box (leaf or container) cut out of a corpus file: box-level decoding of containers goes through the
		// reader-path decoders of their children, which file-level decoding never does below moov/moof
		raw = c03RealBoxes[t.Draw(len(c03RealBoxes))]
		r.Probe("leaf-real-box")
	}
	if t.Chance(200) {
		// two boxes side by side inside a plain container: a child decoder that looks or reads past its own box shows
		// when a sibling follows it
		second := synthBox(t, rnd)
		if len(c03RealBoxes) > 0 && t.Bool() {
			second = c03RealBoxes[t.Draw(len(c03RealBoxes))]
		}
		inner := append(append([]byte(nil), raw...), second...)
		cont := make([]byte, 8, 8+len(inner))
		binary.BigEndian.PutUint32(cont, uint32(8+len(inner)))
		copy(cont[4:], []string{"udta", "udta", "mvex", "dinf", "edts"}[t.Draw(5)])
		raw = append(cont, inner...)
		r.Probe("leaf-two-siblings")
	}
	typ := string(raw[4:8])
	r.Event("leaf", int(sim.HashString(typ)&0xffff), len(raw))
	decSR := func(x []byte) (b mp4.Box, err error) {
		if perr := noPanic(r, func() { b, err = mp4.DecodeBoxSR(0, bits.NewFixedSliceReader(x)) }); perr != nil {
			return nil, perr
		}
		return
	}
	decRd := func(x []byte, cfg sim.ReadCfg) (b mp4.Box, err error) {
		h := sim.NewHandle(r, "box", x, cfg)
		if perr := noPanic(r, func() { b, err = mp4.DecodeBox(0, sim.StreamReader{H: h}) }); perr != nil {
			return nil, perr
		}
		return
	}
	enc := func(b mp4.Box) ([]byte, error) {
		s := sim.NewSink(nil)
		var err error
		if perr := noPanic(r, func() { err = b.Encode(s) }); perr != nil {
			return nil, perr
		}
		return s.Buf, err
	}
	firstSR := t.Bool()
	var b0 mp4.Box
	var err error
	if firstSR {
		b0, err = decSR(raw)
	} else {
		b0, err = decRd(raw, sim.PlainCfg())
	}
	if err != nil || b0 == nil {
		r.Probe("leaf-rejected")
		return
	}
	x, err := enc(b0)
	if err != nil || len(x) < 8 {
		return
	}
	// is x a fixed point of the first path?
	var b1 mp4.Box
	if firstSR {
		b1, err = decSR(x)
	} else {
		b1, err = decRd(x, sim.PlainCfg())
	}
	if err != nil || b1 == nil {
		return
	}
	x1, err := enc(b1)
	if err != nil || !bytes.Equal(x1, x) {
		r.Probe("leaf-not-a-fixed-point")
		return
	}
	r.Probe("leaf-canonical")
	r.Probe("leaf-canonical:" + typ)
	r.Logf("leaf box %q: %d bytes canonical via %s path", typ, len(x), map[bool]string{true: "slice", false: "reader"}[firstSR])
	// the other path
	var b2 mp4.Box
	if firstSR {
		b2, err = decRd(x, sim.DrawDelivery(t))
	} else {
		b2, err = decSR(x)
	}
	if err != nil || b2 == nil {
		r.Violate("c03-leaf-rejects", "box %q (%x): one decode path reproduces it exactly, the other rejects it: %v", typ, trunc(x, 48), err)
		return
	}
	if d := deepEquiv(b1, b2); d != "" {
		r.Violate("c03-leaf-structure", "box %q (%x): the two decode paths give different structures at %s", typ, trunc(x, 48), d)
	}
	// encoders on the decoded box
	var sz uint64
	_ = noPanic(r, func() { sz = b2.Size() })
	out, e2, _ := encodeSWTo(r, "EncodeSW", b2, int(sz)+64)
	if e2 == nil && !bytes.Equal(out, x) {
		r.Violate("c03-leaf-encoders", "box %q: EncodeSW writes %d bytes differing from Encode's %d bytes (first diff %d)", typ, len(out), len(x), firstDiff(out, x))
	}
	if e2 != nil {
		r.Violate("c03-leaf-encoders", "box %q: Encode succeeds, EncodeSW fails: %v", typ, e2)
	}
}

// c03Encoders: Encode(w) vs EncodeSW(sw) on one node: identical bytes or both fail; with the same
// capacity imposed on both sinks both fail or both succeed.
func c03Encoders(r *sim.Run) {
	t := r.T
	src := drawSource(r)
	nd := c02PickNode(r, src)
	o := nd.obj
	r.Logf("encoders: source=%s node=%s", src.desc, nd.desc)
	r.Event("enc-node", int(sim.HashString(nd.desc)&0xffff))
	order := t.Bool() // which encoder runs first (both mutate the object when optimising)
	var wOut, sOut []byte
	var wErr, sErr, sAcc error
	var size, nWrites int
	r.Guard("Size", func() { size = int(o.Size()) })
	runW := func() {
		s := sim.NewSink(nil)
		wErr = encodeTo(r, "Encode", o, s)
		wOut = s.Buf
		nWrites = s.Writes
	}
	runS := func() {
		// generous capacity: Size() may legitimately change when optimisation rewrites the trun
		sOut, sErr, sAcc = encodeSWTo(r, "EncodeSW", o, size+4096)
	}
	if order {
		runS()
		runW()
	} else {
		runW()
		runS()
	}
	sFail := sErr != nil
	_ = sAcc
	wFail := wErr != nil
	switch {
	case wFail != sFail:
		r.Violate("c03-encoders-outcome", "%s: Encode err=%v but EncodeSW err=%v acc=%v", nd.desc, wErr, sErr, sAcc)
	case !wFail && !bytes.Equal(wOut, sOut):
		r.Violate("c03-encoders-bytes", "%s: Encode and EncodeSW differ: %d vs %d bytes, first diff at %d", nd.desc, len(wOut), len(sOut), firstDiff(wOut, sOut))
	}
	if wFail {
		r.Probe("both-encoders-fail")
		return
	}
	// same capacity on both
	n := len(wOut)
	caps := []int{n, n - 1, n + 1, t.Draw(n + 1), n - 1 - t.Draw(min(n, 16))}
	for _, c := range caps {
		if c < 0 {
			continue
		}
		s := sim.NewSink(r)
		s.Capacity = c
		e1 := encodeTo(r, "Encode(cap)", o, s)
		_, e2, a2 := encodeSWTo(r, "EncodeSW(cap)", o, c)
		if c < n {
			r.Fault("slice-short")
		}
		if (e1 != nil) != (e2 != nil) {
			r.Violate("c03-encoders-capacity", "%s: with capacity %d (encoding is %d bytes) Encode err=%v but EncodeSW err=%v (accumulated error %v)", nd.desc, c, n, e1, e2, a2)
		}
	}
	// a transient device error: write k is refused, later writes are accepted again. If Encode still reports success,
	// its bytes are not the ones EncodeSW produces.
	if nWrites > 0 {
		s := sim.NewSink(r)
		s.FailAtOp = 1 + t.Draw(nWrites)
		e1 := encodeTo(r, "Encode(write error)", o, s)
		if e1 == nil && s.Failed && !bytes.Equal(s.Buf, sOut) {
			r.Violate("c03-encoders-write-error", "%s: Encode reported success although write #%d of %d was refused; it delivered %d bytes, EncodeSW produces %d", nd.desc, s.FailAtOp, nWrites, len(s.Buf), len(sOut))
		}
	}
}

func init() {
	sim.Register(&sim.Prop{
		ID:    "C03",
		Level: "exploration",
		Rule: "each run either (leaf) builds a box of any REGISTERED type with a seeded payload, normalises it through one decode path and, if the result is a fixed point, demands acceptance and deep equality from the other path and equal Encode/EncodeSW output; or (encoders) picks a node of a decoded corpus file / packager production and compares Encode with EncodeSW (either order, same capacity imposed on both sinks: n, n-1, n+1, seeded), or (decoders) takes a byte string X = corpus file or packager stream, " +
			"optionally passed through 1-2 size-repaired unit-transport operations (splice foreign box, duplicate, swap, move, drop; top level or nested), decodes it by the slice path and by the reader path, applies the property's precondition literally " +
			"(a path that accepts X and re-encodes it exactly in box-tree mode obliges the other path to accept X and give a deep-equal structure incl. grouping and start positions), then re-decodes through a seeded legal delivery schedule and with the stream cut at byte b or failing at read k. " +
			"non-trivial = a delivery/transport/capacity fault fired; distinct = hash of (X identity, transport ops, acceptance pattern, delivered read sizes, outcomes).",
		Assumptions: []string{"structural equivalence = reflective deep comparison incl. unexported fields with nil==empty", "inputs failing the precondition (neither path reproduces X) impose nothing", "leaf-box decoder pairs are only exercised for box types present in corpus/packager/transport output"},
		Real:        realLib, Stub: append([]string{"unit transport (box-level drop/dup/swap/move/splice with size repair)"}, stubIO...), RealNoFault: realNoFault,
		Runs:       map[string]int{"quick": 200000, "thorough": 8000000},
		Setup:      c03Setup,
		Run:        c03Run,
		WantFaults: []string{"read-short", "read-zero", "read-data+eof", "read-eio", "disk-truncated", "unit-spliced", "unit-duplicated", "unit-reordered", "unit-moved", "unit-dropped", "slice-short", "write-full", "write-eio"},
		WantProbes: []string{"canonical-X", "cut-on-box-boundary", "leaf-canonical"},
	})
}
