//go:build go1.21

package props

import (
	"encoding/binary"
	"fmt"
	"runtime/metrics"
	"time"

	"github.com/Eyevinn/mp4ff/bits"
	"github.com/Eyevinn/mp4ff/internal/vsim/ref"
	"github.com/Eyevinn/mp4ff/internal/vsim/sim"
	"github.com/Eyevinn/mp4ff/internal/vsim/work"
	"github.com/Eyevinn/mp4ff/mp4"
)

// C04 — untrusted container input never crashes, hangs or balloons memory.
// A fault-tolerance statement whose quantifier lists transport and storage faults: truncation,
// stored-byte corruption of size/count/version/offset fields, torn/zeroed ranges, box
// removal/duplication/reordering (sizes repaired or not), EIO, short/zero reads.

// Budgets. The property fixes no constants; these are ours, set far above anything the unchanged
// tree needs (see evidence "measured_maxima") so that sound code never alarms, while count-driven
// balloons (allocation proportional to a number read from the input) exceed them by orders of magnitude.
const (
	c04AllocConst   = 160 << 20 // bytes (10x the largest per-step allocation measured on the unchanged tree)
	c04AllocPerByte = 768       // bytes per input byte (10x the largest ratio measured for inputs >= 64 KiB)
	c04WallConst    = 2 * time.Second
	c04WallPerByte  = 200 * time.Microsecond
	c04MaxInput     = 512 << 10
)

var c04Bases []*work.CorpusFile

func c04Setup() error {
	if err := work.SetupPackager(); err != nil {
		return err
	}
	c, _ := work.LoadCorpus()
	for _, cf := range c {
		if len(cf.Data) <= c04MaxInput {
			c04Bases = append(c04Bases, cf)
		}
	}
	return nil
}

var allocSample = []metrics.Sample{{Name: "/gc/heap/allocs:bytes"}}

func heapAllocs() uint64 {
	metrics.Read(allocSample)
	return allocSample[0].Value.Uint64()
}

// c04Step runs one library call under the three oracles: no panic, allocation budget, wall budget.
func c04Step(r *sim.Run, name string, inLen int, f func()) {
	a0 := heapAllocs()
	t0 := time.Now()
	r.Guard(name, f)
	el := time.Since(t0)
	da := int64(heapAllocs() - a0)
	r.Max("alloc_bytes_per_step", da)
	if inLen >= 65536 {
		r.Max("alloc_bytes_per_input_byte(inputs>=64KiB)", da/int64(inLen))
	} else if inLen >= 4096 {
		r.Max("alloc_bytes_per_input_byte(inputs 4KiB..64KiB)", da/int64(inLen))
	} else {
		r.Max("alloc_bytes_per_step(inputs<4096B)", da)
	}
	r.Max("wall_us_per_step", el.Microseconds())
	if budget := int64(c04AllocConst) + int64(c04AllocPerByte)*int64(inLen); da > budget {
		r.Violate("c04-alloc:"+name, "%s allocated %d bytes for an input of %d bytes (budget %d + %d/byte)", name, da, inLen, c04AllocConst, c04AllocPerByte)
	}
	if wb := c04WallConst + time.Duration(inLen)*c04WallPerByte; el > wb {
		// wall clock is the one nondeterministic observation: confirm twice more before believing it
		slow := 1
		for i := 0; i < 2; i++ {
			t1 := time.Now()
			r.Guard(name, f)
			if time.Since(t1) > wb {
				slow++
			}
		}
		if slow == 3 {
			r.Violate("c04-slow:"+name, "%s took %v (and again twice) for an input of %d bytes (budget %v)", name, el, inLen, wb)
		}
	}
}

type byteFault struct {
	off  int
	kind string
}

// c04Corrupt applies one stored-byte fault at a position biased towards size, count, version/flags
// and offset fields found by the independent header walk.
func c04Corrupt(r *sim.Run, x []byte, flat []*ref.Box) string {
	t := r.T
	if len(x) == 0 {
		return "none"
	}
	off := t.Draw(len(x))
	where := "random"
	if len(flat) > 0 && !t.Chance(150) {
		b := flat[t.Draw(len(flat))]
		switch t.Draw(6) {
		case 0:
			off, where = int(b.Start), "size:"+b.Type
		case 1:
			off, where = int(b.Start)+4+t.Draw(4), "type:"+b.Type
		case 2:
			off, where = int(b.Payload()), "version/flags:"+b.Type
		case 3:
			off, where = int(b.Payload())+4, "count-or-first-field:"+b.Type
		case 4:
			off, where = int(b.Payload())+4*t.Draw(8), "early-field:"+b.Type
		default:
			if b.Size > b.Hdr {
				off, where = int(b.Payload())+t.Draw(int(b.Size-b.Hdr)), "payload:"+b.Type
			}
		}
	}
	if off < 0 || off >= len(x) {
		off = t.Draw(len(x))
		where = "random"
	}
	kind := ""
	if len(flat) > 0 && t.Chance(60) {
		// turn a box header into the 64-bit size form with an enormous size (values around 2^63 and 2^64)
		b := flat[t.Draw(len(flat))]
		if b.Size >= 16 && int(b.Start)+16 <= len(x) {
			o := int(b.Start)
			binary.BigEndian.PutUint32(x[o:], 1)
			// a size of 2^64-k makes "skip the payload" a seek k bytes BACK: choose k so that it lands on an earlier box
			back := uint64(16)
			if e := flat[t.Draw(len(flat))]; e.Start < b.Start {
				back = uint64(b.Start-e.Start) + 16
			}
			v := []uint64{1<<63 - 1, 1 << 63, 1<<63 + uint64(t.Draw(16)), 1<<64 - 1, 1<<63 - uint64(b.Start) - uint64(t.Draw(3)), 1<<62 + uint64(t.Draw(1<<20)), uint64(b.Size) + 8, 1 << 32, -back, -back, -back + 16,
				uint64(t.Draw(17)), uint64(8 + t.Draw(8)), uint64(b.Size)}[t.Draw(14)] // ... and sizes smaller than the 16-byte header itself
			binary.BigEndian.PutUint64(x[o+8:], v)
			r.Fault("stored-largesize-huge")
			return fmt.Sprintf("largesize=%#x@%d(%s)", v, o, b.Type)
		}
	}
	put32 := func(v uint32) {
		var b [4]byte
		binary.BigEndian.PutUint32(b[:], v)
		copy(x[off:], b[:])
	}
	if len(flat) > 0 && t.Chance(60) {
		// a box header whose type field names another known box (a header written over the wrong one): the container
		// and file-assembly code then meets a well-formed box where it does not expect that type
		b := flat[t.Draw(len(flat))]
		types := []string{"free", "skip", "mdat", "moof", "moov", "styp", "ftyp", "sidx", "traf", "trun", "tfhd", "trak", "mfra", "emsg", "senc", "stsd", "mvex", "uuid"}
		nt := types[t.Draw(len(types))]
		if int(b.Start)+8 <= len(x) {
			copy(x[b.Start+4:], nt)
			r.Fault("stored-type-rewritten")
			return fmt.Sprintf("type=%s@%d(was %s)", nt, b.Start, b.Type)
		}
	}
	switch t.Draw(9) {
	case 0:
		x[off] ^= 1 << uint(t.Draw(8))
		kind = "bitflip"
	case 1:
		put32(0xffffffff)
		kind = "u32=ffffffff"
	case 2:
		put32(0x7fffffff)
		kind = "u32=7fffffff"
	case 3:
		put32(0)
		kind = "u32=0"
	case 4:
		put32(uint32(1 + t.Draw(16)))
		kind = "u32=small"
	case 5:
		put32(0x80000000)
		kind = "u32=80000000"
	case 6:
		if off+4 <= len(x) {
			v := binary.BigEndian.Uint32(x[off:])
			put32(v + uint32(1+t.Draw(64)))
		}
		kind = "u32+=small"
	case 7: // zeroed sector (lost write)
		n := 1 + t.Draw(512)
		for i := off; i < off+n && i < len(x); i++ {
			x[i] = 0
		}
		kind = "zeroed-range"
	default: // misdirected write: another range lands here (torn write)
		n := 1 + t.Draw(512)
		src := t.Draw(len(x))
		for i := 0; i < n && off+i < len(x) && src+i < len(x); i++ {
			x[off+i] = x[src+i]
		}
		kind = "misdirected-range"
	}
	r.Fault("stored-" + kind)
	return fmt.Sprintf("%s@%d(%s)", kind, off, where)
}

func c04Run(r *sim.Run) {
	t := r.T
	// ---- base stream
	var x []byte
	name := ""
	if t.Chance(80) {
		// an init segment from a seeded AddEmptyTrack/Set*Descriptor history (ac-3, ec-3, stpp, wvtt, hev1, ... entries)
		var init *mp4.InitSegment
		var err error
		r.Guard("init history", func() { init, _, err = c19Build(r) })
		if err == nil && init != nil {
			s := sim.NewSink(nil)
			if init.Encode(s) == nil {
				x, name = s.Buf, "built-init"
			}
		}
	}
	if x != nil {
		// base chosen
	} else if t.Chance(150) {
		var p *work.Production
		var err error
		r.Guard("packager", func() {
			p, err = work.Package(r, work.PackOpts{MaxTracks: 3, MaxSegs: 3, MaxFrags: 2, MaxSamples: 4, Foreign: true})
		})
		if err != nil {
			r.Violate("packager-error", "a documented-valid API history failed: %v", err)
		}
		x, name = p.Stream(), "packager-stream"
	} else if t.Chance(80) {
		p, err := work.RawProduceOpt(r, 3, 3, 2, 4, t.Bool(), true)
		if err != nil {
			panic(sim.HarnessAbort{Msg: "raw fragment producer: " + err.Error()})
		}
		x, name = p.Stream(), "raw-fragment-stream"
		if t.Bool() {
			// a random access index at the end: one tfra per track, with entry counts that need not agree
			var offs []uint64
			if top, err := ref.Walk(x, 0, int64(len(x)), false); err == nil {
				for _, b := range top {
					if b.Type == "moof" {
						offs = append(offs, uint64(b.Start))
					}
				}
			}
			counts := make([]int, len(p.Tracks))
			for i := range counts {
				counts[i] = t.Draw(len(offs) + 2)
			}
			x = append(x, work.RawMfraTracks(offs, counts)...)
			name += "+mfra"
		}
	} else {
		cf := c04Bases[t.Draw(len(c04Bases))]
		x, name = append([]byte(nil), cf.Data...), cf.Name
	}
	// ---- unit-level transport faults (sizes repaired or not)
	var desc []string
	if t.Chance(500) {
		if units, err := work.ParseUnits(x); err == nil {
			repair := t.Bool()
			ops := work.Transport(r, &units, 1+t.Draw(3), t.Chance(700), []string{"drop", "dup", "swap", "move", "splice", "drop", "shrink-table", "shrink-table", "largesize", "version"})
			x = work.Serialize(units, repair)
			desc = append(desc, fmt.Sprintf("transport(repair=%v)%v", repair, ops))
			if !repair {
				r.Fault("sizes-left-unrepaired")
			}
		}
	}
	if len(x) > 2*c04MaxInput {
		x = x[:2*c04MaxInput]
	}
	// ---- stored-byte faults
	if nb := t.Draw(4); nb > 0 {
		top, _ := ref.Walk(x, 0, int64(len(x)), true) // partial result on damaged input is fine
		flat := ref.Flatten(top)
		for i := 0; i < nb; i++ {
			desc = append(desc, c04Corrupt(r, x, flat))
		}
	}
	// ---- delivery and read faults
	cfg := sim.DrawDelivery(t)
	if t.Chance(250) {
		cfg.TruncAt = int64(t.Draw(len(x) + 1))
		desc = append(desc, fmt.Sprintf("truncate@%d", cfg.TruncAt))
	}
	if t.Chance(120) {
		cfg.ErrAtOp = 1 + t.Draw(100)
		cfg.ErrPart = t.Bool()
		desc = append(desc, fmt.Sprintf("eio@read%d", cfg.ErrAtOp))
	}
	if t.Chance(50) {
		cfg.SeekErrAt = 1 + t.Draw(6)
		desc = append(desc, fmt.Sprintf("eio@seek%d", cfg.SeekErrAt))
	}
	r.Logf("base=%s len=%d faults=%v delivery=%+v", name, len(x), desc, cfg)
	r.Event("base", int(sim.HashString(name)&0xffff), len(x)&0xffff)
	disk := x
	if cfg.TruncAt >= 0 && cfg.TruncAt < int64(len(x)) {
		disk = x[:cfg.TruncAt]
	}
	n := len(disk)
	// ---- consumers
	nCons := 1 + t.Draw(2)
	for ci := 0; ci < nCons; ci++ {
		cons := t.Draw(6)
		if cons == 5 {
			c04SingleBox(r, disk)
			continue
		}
		flags := []mp4.DecFileFlags{mp4.DecNoFlags, mp4.DecISMFlag, mp4.DecStartOnMoof, mp4.DecISMFlag | mp4.DecStartOnMoof}[t.Draw(4)]
		var f *mp4.File
		var err error
		h := sim.NewHandle(r, name, x, cfg)
		what := ""
		switch cons {
		case 0, 1: // reader path (ISM flag needs a seeker: the handle itself)
			what = fmt.Sprintf("DecodeFile(reader,flags=%d)", flags)
			c04Step(r, "DecodeFile", n, func() {
				if flags&mp4.DecISMFlag != 0 {
					f, err = mp4.DecodeFile(h, mp4.WithDecodeFlags(flags))
				} else {
					f, err = mp4.DecodeFile(sim.StreamReader{H: h}, mp4.WithDecodeFlags(flags))
				}
			})
		case 2: // lazy mdat on the disk
			what = fmt.Sprintf("DecodeFile(lazy,flags=%d)", flags)
			c04Step(r, "DecodeFile(lazy)", n, func() {
				f, err = mp4.DecodeFile(h, mp4.WithDecodeMode(mp4.DecModeLazyMdat), mp4.WithDecodeFlags(flags))
			})
		case 3: // slice path
			what = fmt.Sprintf("DecodeFileSR(flags=%d)", flags)
			c04Step(r, "DecodeFileSR", n, func() {
				f, err = mp4.DecodeFileSR(bits.NewFixedSliceReader(disk), mp4.WithDecodeFlags(flags))
			})
		case 4: // box by box
			what = "DecodeBox loop"
			viaSR := t.Bool()
			c04Step(r, "DecodeBox-loop", n, func() {
				var pos uint64
				if viaSR {
					sr := bits.NewFixedSliceReader(disk)
					for sr.NrRemainingBytes() > 0 {
						b, e := mp4.DecodeBoxSR(pos, sr)
						if e != nil || b == nil {
							err = e
							return
						}
						if b.Size() == 0 {
							return
						}
						pos += b.Size()
					}
				} else {
					for i := 0; i < 1<<20; i++ {
						b, e := mp4.DecodeBox(pos, sim.StreamReader{H: h})
						if e != nil || b == nil {
							err = e
							return
						}
						pos += b.Size()
					}
				}
			})
		}
		r.Logf("consumer %s -> err=%v", what, err)
		r.Event("cons", cons, int(flags), btoi(err == nil))
		if err != nil || f == nil {
			r.Probe("decode-rejected")
			continue
		}
		r.Probe("decode-accepted-faulty-input")
		// ---- on success: Info, Size, Encode, EncodeSW in both modes; lazy follow-ups
		for _, lvl := range []string{"", "all:1", "all:2"} {
			if t.Chance(600) {
				cs := sim.NewSink(nil)
				cs.Discard = true
				lvl := lvl
				c04Step(r, "Info", n, func() { _ = f.Info(cs, lvl, "", "  ") })
			}
		}
		for _, mode := range []mp4.EncFragFileMode{mp4.EncModeSegment, mp4.EncModeBoxTree} {
			if !t.Chance(700) {
				continue
			}
			f.FragEncMode = mode
			if t.Chance(300) { // trun optimisation is an encode option too
				f.EncOptimize = mp4.OptimizeTrun
			} else {
				f.EncOptimize = mp4.OptimizeNone
			}
			var sz uint64
			c04Step(r, "Size", n, func() { sz = f.Size() })
			if cons == 2 {
				continue // lazily decoded: payload is not in memory; encode of headers only is C08's subject
			}
			cs := sim.NewSink(nil)
			cs.Discard = true
			c04Step(r, "Encode", n, func() { _ = f.Encode(cs) })
			if sz < 64<<20 {
				sw := bits.NewFixedSliceWriter(int(sz) + 1024) // harness allocation: outside the measured step
				c04Step(r, "EncodeSW", n, func() { _ = f.EncodeSW(sw) })
			}
		}
	}
}

// c04SingleBox decodes ONE box taken from any depth of the (damaged) stream on its own, by either path,
// so that leaf decoders are reached without their parents' size checks in front of them; then Info/Size/Encode.
func c04SingleBox(r *sim.Run, disk []byte) {
	t := r.T
	top, _ := ref.Walk(disk, 0, int64(len(disk)), true)
	flat := ref.Flatten(top)
	if len(flat) == 0 {
		return
	}
	b := flat[t.Draw(len(flat))]
	raw := append([]byte(nil), disk[b.Start:b.End()]...)
	if t.Chance(300) {
		// a box of ANY registered type with a seeded payload: most box types never occur in the corpus
		raw = synthBox(t, t.Sub())
		b = &ref.Box{Type: string(raw[4:8]), Start: 0, Size: int64(len(raw)), Hdr: 8}
		r.Probe("single-box-synthetic")
	}
	// optional extra damage local to this box: cut its tail or enlarge/shrink its size field (synthetic boxes carry
	// their own inconsistencies already: most of them are left as generated)
	dmg := t.Draw(4)
	if string(raw[4:8]) != b.Type || (b.Start == 0 && b.Size == int64(len(raw)) && t.Chance(600)) {
		dmg = 0
	}
	switch dmg {
	case 1:
		raw = raw[:t.Draw(len(raw)+1)]
		r.Fault("box-tail-cut")
	case 2:
		if len(raw) >= 4 {
			binary.BigEndian.PutUint32(raw, uint32(len(raw)+1+t.Draw(64)))
			r.Fault("box-size-inflated")
		}
	case 3:
		if len(raw) >= 4 && len(raw) > 8 {
			binary.BigEndian.PutUint32(raw, uint32(8+t.Draw(len(raw)-8)))
			r.Fault("box-size-deflated")
		}
	}
	if t.Chance(350) {
		// the box is not the last thing in the buffer: bytes of a following box lie behind it (a decoder that trusts a
		// count more than its own box size reads on into them)
		tail := []byte{0x06, 0, 0, 0, 'm', 'd', 'a', 't', 0xff, 0xff, 0xff, 0xff, 0x7f, 0xff, 0xff, 0xff}
		if t.Bool() {
			tail = append([]byte{0, 0, 0, 16, 'f', 'r', 'e', 'e', 0x40, 0, 0, 0, 0, 0, 0, 0}, tail...)
		}
		raw = append(raw, tail...)
		r.Fault("box-followed-by-data")
	}
	n := len(raw)
	var box mp4.Box
	var err error
	viaSR := t.Bool()
	if viaSR {
		c04Step(r, "DecodeBoxSR", n, func() { box, err = mp4.DecodeBoxSR(uint64(b.Start), bits.NewFixedSliceReader(raw)) })
	} else {
		h := sim.NewHandle(r, "box", raw, sim.DrawDelivery(t))
		c04Step(r, "DecodeBox", n, func() { box, err = mp4.DecodeBox(uint64(b.Start), sim.StreamReader{H: h}) })
	}
	r.Logf("single box %s@%d (%d bytes, depth %d) viaSR=%v -> err=%v", b.Type, b.Start, n, b.Depth, viaSR, err)
	r.Event("single-box", int(sim.HashString(b.Type)&0xffff), btoi(viaSR), btoi(err == nil))
	if err != nil || box == nil {
		return
	}
	r.Probe("single-box-accepted")
	for _, lvl := range []string{"", "all:1", "all:2"} {
		lvl := lvl
		cs := sim.NewSink(nil)
		cs.Discard = true
		c04Step(r, "Info(box)", n, func() { _ = box.Info(cs, lvl, "", "  ") })
	}
	var sz uint64
	c04Step(r, "Size(box)", n, func() { sz = box.Size() })
	cs := sim.NewSink(nil)
	cs.Discard = true
	c04Step(r, "Encode(box)", n, func() { _ = box.Encode(cs) })
	if sz < 64<<20 {
		sw := bits.NewFixedSliceWriter(int(sz) + 64)
		c04Step(r, "EncodeSW(box)", n, func() { _ = box.EncodeSW(sw) })
	}
}

func init() {
	sim.Register(&sim.Prop{
		ID:    "C04",
		Level: "exploration",
		Rule: "each run: a corpus file (<=512 kB) or a packager stream suffers 1..n compounding faults: unit transport at any depth (drop/duplicate/swap/move/splice/shrink a table box consistently/64-bit header form, enclosing sizes repaired or left stale), 0-3 stored-byte faults placed by an independent header walk on size, type, version/flags, count and early fields " +
			"(bit flip, u32 := ffffffff/7fffffff/80000000/0/small/+small, header rewritten to 64-bit size form with sizes around 2^62/2^63/2^64, zeroed range, misdirected range), truncation, EIO at read k, seek error, short/zero/data+EOF delivery; 1-2 consumers (a single box taken from any depth, or a synthetic box of any registered type with a seeded payload, decoded on its own by DecodeBox/DecodeBoxSR with optional local size damage, DecodeFile reader path, lazy-mdat mode on SimDisk, DecodeFileSR, DecodeBox/DecodeBoxSR loop) x flags {none, ISM, start-on-moof, both}; " +
			"on success Info at '', all:1, all:2, Size, Encode and EncodeSW in both fragment encode modes. Every library call is a step under three oracles: no panic, allocated bytes <= 160 MiB + 768/byte, wall <= 2 s + 200 us/byte (confirmed 3x; hangs by the coordinator watchdog in fresh processes). " +
			"non-trivial = at least one fault fired; distinct = hash of (base, transport ops, byte faults, delivery, consumers, accept/reject outcomes).",
		Assumptions: []string{"budget constants are ours (the property fixes none): chosen >=10x above the maxima measured on the unchanged tree (reported as measured_maxima) ", "Go cannot inject allocation failure: memory is measured (runtime/metrics heap allocs), not faulted",
			"wall clock is observed only for the time budget and confirmed by repetition; a worker death (fatal error, OOM under RLIMIT_AS 12 GiB) reproduced in 3/3 fresh processes counts as a crash"},
		Real: realLib, Stub: append([]string{"unit transport (box-level, repaired and unrepaired sizes)", "stored-byte faults (bit rot, zeroed/misdirected ranges)"}, stubIO...), RealNoFault: realNoFault,
		Runs:        map[string]int{"quick": 400000, "thorough": 20000000},
		HangBudget:  150 * time.Second,
		Setup:       c04Setup,
		Run:         c04Run,
		FatalIsViol: true,
		WantFaults:  []string{"unit-dropped", "unit-duplicated", "unit-reordered", "unit-moved", "unit-spliced", "unit-table-shrunk", "unit-largesize-header", "sizes-left-unrepaired", "stored-bitflip", "stored-u32=ffffffff", "stored-zeroed-range", "stored-misdirected-range", "stored-largesize-huge", "stored-type-rewritten", "box-followed-by-data", "disk-truncated", "read-eio", "seek-eio", "read-short", "read-zero"},
		WantProbes:  []string{"decode-accepted-faulty-input", "decode-rejected", "single-box-accepted"},
	})
}
