//go:build go1.21

package props

import (
	"bytes"
	"crypto/sha256"
	"encoding/hex"
	"encoding/json"
	"fmt"
	"io"
	"os"
	"runtime"
	"runtime/debug"
	"strings"
	"sync"

	"github.com/Eyevinn/mp4ff/aac"
	"github.com/Eyevinn/mp4ff/avc"
	"github.com/Eyevinn/mp4ff/bits"
	"github.com/Eyevinn/mp4ff/hevc"
	"github.com/Eyevinn/mp4ff/internal/vsim/sim"
	"github.com/Eyevinn/mp4ff/internal/vsim/work"
	"github.com/Eyevinn/mp4ff/mp4"
	"github.com/Eyevinn/mp4ff/sei"
)

// C20 — independent objects can be used from concurrent goroutines.
// The simulated dimension is the schedule: which caller task runs at every step boundary is drawn
// from the tape; tasks are serialised by a baton that the race detector cannot see, so one seed is one
// exact interleaving while the detector still reports every conflicting access pair between tasks.

type c20Input struct {
	name   string
	master []byte
	frag   bool   // fragmented with init
	clear  bool   // clear single-track fragmented (encryptable)
	encKey string // hex key if third-party encrypted
}

var c20Inputs []c20Input
var c20AnnexB [][]byte

// c20FP0 is the fingerprint of the package-level registries/tables taken before this process decoded anything.
var c20FP0 string

// c20SetupDirty: the fingerprint changed during setup (which decodes the corpus files once to classify them).
var c20SetupDirty bool

func c20Fingerprint() string {
	rd, sr, sge := mp4.VsimDecoderKeys()
	return fmt.Sprint(rd, sr, sge, len(mp4.PrftFlagsInterpretation), len(mp4.CustomChannelMapLocations),
		mp4.AC3SampleRates, mp4.AC3acmodChannelTable, mp4.AC3BitrateCodesKbps, mp4.EC3ChannelLocationBits,
		len(aac.FrequencyTable), len(aac.ReverseFrequencies))
}

func c20Setup() error {
	c20FP0 = c20Fingerprint()
	c, err := work.LoadCorpus()
	if err != nil {
		return err
	}
	keys := map[string]string{"prog_8s_enc_dashinit.mp4": "63cb5f7184dd4b689a5c5ff11ee6a328", "cbcs.mp4": "22bdb0063805260307ee5045c0f3835a", "cbcs_audio.mp4": "5ffd93861fa776e96cccd934898fc1c8"}
	for _, cf := range c {
		if len(cf.Data) > 200<<10 {
			continue
		}
		ok := false
		var in c20Input
		func() {
			defer func() { recover() }()
			f, err := decodeMem(cf.Data)
			if err != nil {
				return
			}
			ok = true
			in = c20Input{name: cf.Name, master: cf.Data, frag: f.IsFragmented() && f.Init != nil && len(f.Segments) > 0, encKey: keys[cf.Name]}
			if in.frag && in.encKey == "" && len(f.Init.Moov.Traks) == 1 && !strings.Contains(cf.Name, "enc") && !strings.Contains(cf.Name, "PIFF") {
				enc := false
				for _, tr := range f.Init.Moov.Traks {
					if f.Init.Moov.IsEncrypted(tr.Tkhd.TrackID) {
						enc = true
					}
				}
				in.clear = !enc
			}
		}()
		if ok {
			c20Inputs = append(c20Inputs, in)
		}
	}
	// init segments with ac-3 / ec-3 / stpp / wvtt / hev1 sample entries, built once from fixed seeds through the public API
	for seed := uint64(1); seed <= 12; seed++ {
		rr := sim.NewScratchRun(sim.NewTape(seed))
		var init *mp4.InitSegment
		func() {
			defer func() { recover() }()
			init, _, _ = c19Build(rr)
		}()
		if init == nil {
			continue
		}
		var b bytes.Buffer
		if init.Encode(&b) == nil {
			c20Inputs = append(c20Inputs, c20Input{name: fmt.Sprintf("built-init-%d", seed), master: b.Bytes()})
		}
	}
	// init segments with AC-3 / E-AC-3 tracks over all audio coding modes, with and without LFE and dependent substreams
	for k := 0; k < 4; k++ {
		init := mp4.CreateEmptyInit()
		for j := 0; j < 3; j++ {
			init.AddEmptyTrack(48000, "audio", "und")
			trak := init.Moov.Traks[j]
			acmod := byte((3*k + j) % 8)
			var err error
			if (k+j)%2 == 0 {
				err = trak.SetAC3Descriptor(&mp4.Dac3Box{FSCod: 0, BSID: 8, ACMod: acmod, LFEOn: byte((k + j/2) % 2), BitRateCode: 10})
			} else {
				sub := mp4.EC3Sub{BSID: 16, ACMod: acmod, LFEOn: byte(k % 2)}
				if j == 1 {
					sub.NumDepSub, sub.ChanLoc = 1, uint16(1<<uint(k+1))
				}
				err = trak.SetEC3Descriptor(&mp4.Dec3Box{DataRate: 192, EC3Subs: []mp4.EC3Sub{sub}})
			}
			if err != nil {
				return fmt.Errorf("c20: ac-3 init: %v", err)
			}
		}
		var b bytes.Buffer
		if init.Encode(&b) == nil {
			c20Inputs = append(c20Inputs, c20Input{name: fmt.Sprintf("ac3-modes-init-%d", k), master: b.Bytes()})
		}
	}
	// small files followed by a meta box, in the ISO form (FullBox) and in the QuickTime form (handler box directly)
	if base := work.ByName("V300/init.mp4"); base != nil {
		hd := []byte{0, 0, 0, 33, 'h', 'd', 'l', 'r', 0, 0, 0, 0, 0, 0, 0, 0, 'm', 'd', 'i', 'r', 0, 0, 0, 0, 0, 0, 0, 0, 0, 0, 0, 0, 0}
		iso := append([]byte{0, 0, 0, 45, 'm', 'e', 't', 'a', 0, 0, 0, 0}, hd...)
		qt := append([]byte{0, 0, 0, 41, 'm', 'e', 't', 'a'}, hd...)
		c20Inputs = append(c20Inputs, c20Input{name: "init+meta(iso)", master: append(append([]byte(nil), base.Data...), iso...)})
		c20Inputs = append(c20Inputs, c20Input{name: "init+meta(quicktime)", master: append(append([]byte(nil), base.Data...), qt...)})
	}
	// small files followed by a sample group description box of a grouping type the library has no entry decoder for
	for i, gt := range []string{"zzzz", "abcd"} {
		if base := work.ByName([]string{"V300/init.mp4", "golden_init_video.mp4"}[i]); base != nil {
			sg := append([]byte{0, 0, 0, 28, 's', 'g', 'p', 'd', 1, 0, 0, 0}, gt...)
			sg = append(sg, 0, 0, 0, 4, 0, 0, 0, 1, 0xde, 0xad, 0xbe, 0xef)
			c20Inputs = append(c20Inputs, c20Input{name: base.Name + "+sgpd(" + gt + ")", master: append(append([]byte(nil), base.Data...), sg...)})
		}
	}
	// Annex B byte streams
	for _, p := range []string{"avc/testdata/blackframe.264", "avc/testdata/two-frames.264", "cmd/mp4ff-nallister/testdata/4pics.264"} {
		if b, err := readRepoFile(p); err == nil {
			c20AnnexB = append(c20AnnexB, b)
		}
	}
	c20SetupDirty = c20Fingerprint() != c20FP0
	if len(c20Inputs) < 8 || len(c20AnnexB) == 0 {
		return fmt.Errorf("c20: too few inputs (%d files, %d annexb)", len(c20Inputs), len(c20AnnexB))
	}
	return nil
}

type c20Step struct {
	kind string
	arg  int
}

type c20Script struct {
	task  int
	input int // index into the run's shared inputs
	steps []c20Step
	// taint: this script makes the library write into the shared input (slice-path aliasing + in-place crypto)
	writesInput bool
}

// c20Task is the private state of one caller.
type c20Task struct {
	f    *mp4.File
	outs [][]byte
	rs   *c20Dev    // the task's own device handle when f was decoded lazily
	sch  *sim.Sched // nil in solo executions: I/O points do not yield
	free bool       // mode B: I/O points call runtime.Gosched
}

// c20Dev is a task's private handle on a shared read-only input: every Read/Seek/Write is an I/O point at which the
// scheduler may switch to another task (mode A) or the goroutine yields its processor (mode B).
type c20Dev struct {
	tk  *c20Task
	rd  *bytes.Reader
	buf []byte // written bytes (sink side)
}

// c20FailWriter refuses its failAt-th write (1-based; 0 = never), accepting everything else.
type c20FailWriter struct {
	dev    *c20Dev
	n      int
	failAt int
}

func (w *c20FailWriter) Write(p []byte) (int, error) {
	w.n++
	if w.n == w.failAt {
		return 0, sim.ErrInjected
	}
	return w.dev.Write(p)
}

func (d *c20Dev) point() {
	if d.tk.sch != nil {
		d.tk.sch.Yield()
	} else if d.tk.free {
		runtime.Gosched()
	}
}
func (d *c20Dev) Read(p []byte) (int, error)         { d.point(); return d.rd.Read(p) }
func (d *c20Dev) Seek(o int64, w int) (int64, error) { d.point(); return d.rd.Seek(o, w) }
func (d *c20Dev) Write(p []byte) (int, error) {
	d.point()
	d.buf = append(d.buf, p...)
	return len(p), nil
}

func hashOf(b []byte) []byte {
	h := sha256.Sum256(b)
	return h[:8]
}

// c20Exec runs one step of a script on the task's private state. It must touch nothing but the
// task's own objects and (read-only) the shared inputs.
func c20Exec(tk *c20Task, sc *c20Script, st c20Step, shared [][]byte, annexb [][]byte, keymat []byte) {
	var out []byte
	defer func() {
		if rec := recover(); rec != nil {
			out = []byte(fmt.Sprintf("panic:%v", rec))
		}
		tk.outs = append(tk.outs, out)
	}()
	in := shared[sc.input]
	switch st.kind {
	case "decodeRd":
		var rd io.Reader = bytes.NewReader(in)
		if st.arg&1 != 0 {
			rd = &c20Dev{tk: tk, rd: bytes.NewReader(in)} // reads are I/O points
		}
		f, err := mp4.DecodeFile(rd, mp4.WithDecodeFlags(mp4.DecFileFlags(st.arg&^1)))
		tk.f, tk.rs = f, nil
		out = []byte(errStr(err))
	case "decodeLazy":
		dev := &c20Dev{tk: tk, rd: bytes.NewReader(in)}
		f, err := mp4.DecodeFile(dev, mp4.WithDecodeMode(mp4.DecModeLazyMdat))
		tk.f, tk.rs = f, dev
		out = []byte(errStr(err))
	case "copy":
		// lazy media data: ranges of the task's own mdat box are read / copied through the task's own handle
		if tk.f == nil || tk.rs == nil {
			return
		}
		var md *mp4.MdatBox
		if tk.f.Mdat != nil {
			md = tk.f.Mdat
		} else if len(tk.f.Segments) > 0 && len(tk.f.Segments[0].Fragments) > 0 {
			md = tk.f.Segments[0].Fragments[0].Mdat
		}
		if md == nil || md.Size() <= md.HeaderSize() {
			return
		}
		pl := int64(md.Size() - md.HeaderSize())
		start := int64(md.PayloadAbsoluteOffset()) + int64(st.arg%7)*pl/8
		size := 1 + (pl-int64(st.arg%7)*pl/8-1)*int64(1+st.arg%3)/3
		if st.arg%2 == 0 {
			sink := &c20Dev{tk: tk}
			n, err := md.CopyData(start, size, tk.rs, sink)
			out = append(hashOf(sink.buf), fmt.Sprintf("%d %s", n, errStr(err))...)
		} else {
			b, err := md.ReadData(start, size, tk.rs)
			out = append(hashOf(b), errStr(err)...)
		}
	case "seiWrite":
		// SEI messages parsed from the task's own copy of an Annex B stream are written back, into a healthy writer or
		// into one whose k-th write is refused
		ab := annexb[st.arg%len(annexb)]
		spss, _ := avc.GetParameterSetsFromByteStream(ab)
		var sps *avc.SPS
		if len(spss) > 0 {
			sps, _ = avc.ParseSPSNALUnit(spss[0], true)
		}
		h := sha256.New()
		for _, n := range avc.ExtractNalusOfTypeFromByteStream(avc.NALU_SEI, ab, false) {
			msgs, err := avc.ParseSEINalu(n, sps)
			if err != nil && len(msgs) == 0 {
				fmt.Fprintf(h, "parse:%v", err)
				continue
			}
			w := &c20FailWriter{dev: &c20Dev{tk: tk}, failAt: (st.arg / 8) % 4} // 0 = healthy
			werr := sei.WriteSEIMessages(w, msgs)
			fmt.Fprintf(h, "%d/%v/", len(msgs), werr)
			h.Write(w.dev.buf)
		}
		out = h.Sum(nil)[:8]
	case "seiBuild":
		// SEI messages of every typed kind, built from this step's own generated payloads: every message's payload is
		// taken first, then all messages are written (each write is an I/O point, so other tasks run in between), and
		// the payloads and texts taken before are looked at again afterwards: what a message gave out must not change
		// because somebody else serialised a message of the same kind meanwhile
		x := uint32(st.arg)*2654435761 + 12345
		gen := func(n int) []byte {
			b := make([]byte, n)
			for i := range b {
				x = x*1664525 + 1013904223
				b[i] = byte(x >> 24)
			}
			return b
		}
		codec := sei.HEVC
		plan := []struct {
			typ uint
			n   int
		}{{144, 4}, {137, 24}, {5, 16 + st.arg%9}, {4, 3 + st.arg%11}, {136, 1 + st.arg%13}, {6, 1 + st.arg%5}, {144, 4}}
		if st.arg&1 != 0 {
			codec = sei.AVC
			plan = []struct {
				typ uint
				n   int
			}{{1, 1 + st.arg%9}, {5, 16 + st.arg%9}, {4, 3 + st.arg%11}, {6, 1 + st.arg%5}, {5, 16}}
		}
		var msgs []sei.SEIMessage
		h := sha256.New()
		for _, pl := range plan {
			m, err := func() (m sei.SEIMessage, err error) {
				defer func() {
					if rec := recover(); rec != nil {
						m, err = nil, fmt.Errorf("panic:%v", rec)
					}
				}()
				return sei.DecodeSEIMessage(sei.NewSEIData(pl.typ, gen(pl.n)), codec)
			}()
			if err != nil || m == nil {
				fmt.Fprintf(h, "dec%d:%v/", pl.typ, err)
				continue
			}
			msgs = append(msgs, m)
		}
		var kept [][]byte
		var texts []string
		for _, m := range msgs {
			kept = append(kept, m.Payload())
			texts = append(texts, m.String())
			fmt.Fprintf(h, "%d/%d/", m.Type(), m.Size())
		}
		w := &c20FailWriter{dev: &c20Dev{tk: tk}, failAt: (st.arg / 16) % 3} // 0 = healthy
		werr := sei.WriteSEIMessages(w, msgs)
		fmt.Fprintf(h, "%v/", werr)
		h.Write(w.dev.buf)
		for i, m := range msgs {
			h.Write(kept[i])
			h.Write([]byte(texts[i]))
			h.Write(m.Payload())
			h.Write([]byte(m.String()))
		}
		out = h.Sum(nil)[:8]
	case "brands":
		// compatible brands are added to the task's own ftyp / styp boxes (decoded ones and a freshly created one) and
		// the boxes are written to the task's device: appending to what the decoder handed out must stay inside the task
		if tk.f == nil {
			return
		}
		add := [][]string{{"lmsg"}, {"cmfv", "dash"}, {"cmf2"}, {"iso9", "lmsg", "cmfs"}}[st.arg%4]
		h := sha256.New()
		enc := func(b mp4.Box) {
			dev := &c20Dev{tk: tk}
			err := b.Encode(dev)
			fmt.Fprintf(h, "%d/%v/", b.Size(), err)
			h.Write(dev.buf)
		}
		var ftyps []*mp4.FtypBox
		if tk.f.Ftyp != nil {
			ftyps = append(ftyps, tk.f.Ftyp)
		}
		if tk.f.Init != nil && tk.f.Init.Ftyp != nil && tk.f.Init.Ftyp != tk.f.Ftyp {
			ftyps = append(ftyps, tk.f.Init.Ftyp)
		}
		for _, ft := range ftyps {
			ft.AddCompatibleBrands(add)
			enc(ft)
		}
		for _, sg := range tk.f.Segments {
			if sg.Styp != nil {
				sg.Styp.AddCompatibleBrands(add)
				enc(sg.Styp)
			}
		}
		fresh := mp4.CreateStyp()
		fresh.AddCompatibleBrands(add)
		enc(fresh)
		// an init segment of the task's own making whose data reference is pointed at an external location
		ini := mp4.CreateEmptyInit()
		ini.AddEmptyTrack(uint32(1000+st.arg), "video", "und")
		if trak := ini.Moov.Trak; trak != nil && trak.Mdia != nil && trak.Mdia.Minf != nil && trak.Mdia.Minf.Dinf != nil && trak.Mdia.Minf.Dinf.Dref != nil {
			for _, c := range trak.Mdia.Minf.Dinf.Dref.Children {
				if u, ok := c.(*mp4.URLBox); ok && st.arg%2 == 1 {
					u.Flags, u.NoLocation, u.Location = 0, false, fmt.Sprintf("http://example.com/%d.mp4", st.arg)
				}
			}
		}
		enc(ini.Moov)
		// parameter sets taken out of the task's own copy of an HEVC-style byte stream stay what they were while others extract theirs
		hs := []byte{0, 0, 0, 1, 0x40, 1, byte(st.arg), 2, 3, 0, 0, 0, 1, 0x42, 1, byte(st.arg), 5, 6, 7, 0, 0, 0, 1, 0x44, 1, byte(st.arg), 9}
		v1, s1, p1 := hevc.GetParameterSetsFromByteStream(hs)
		enc(mp4.CreateStyp())
		for _, set := range [][][]byte{v1, s1, p1} {
			for _, n := range set {
				h.Write(n)
			}
		}
		seg := mp4.NewMediaSegment()
		if seg.Styp != nil {
			fmt.Fprintf(h, "%v", seg.Styp.CompatibleBrands())
		}
		out = h.Sum(nil)[:8]
	case "fault":
		// a stream that ends inside a box header or body: the decode must fail the same way for everyone
		var x []byte
		switch st.arg % 4 {
		case 0:
			x = []byte{0, 0, 0, 1, 'm', 'd', 'a', 't', 0, 0, 0} // ends inside the 64-bit size field
		case 1:
			x = []byte{0, 0, 0, 24, 'f', 't'} // ends inside the header
		default:
			x = in[:len(in)*(1+st.arg%5)/7] // ends somewhere inside the shared input
		}
		_, err := mp4.DecodeFile(&c20Dev{tk: tk, rd: bytes.NewReader(x)})
		out = []byte(errStr(err))
	case "decodeSR":
		f, err := mp4.DecodeFileSR(bits.NewFixedSliceReader(in))
		tk.f, tk.rs = f, nil
		out = []byte(errStr(err))
	case "info":
		if tk.f == nil {
			return
		}
		var b bytes.Buffer
		err := tk.f.Info(&b, []string{"", "all:1", "all:2"}[st.arg%3], "", "  ")
		out = append(hashOf(b.Bytes()), errStr(err)...)
	case "encode":
		if tk.f == nil {
			return
		}
		if st.arg&1 == 1 {
			tk.f.FragEncMode = mp4.EncModeBoxTree
		}
		// the task's own output device: every Write is an I/O point; with arg >= 2 one write is refused
		w := &c20FailWriter{dev: &c20Dev{tk: tk}, failAt: st.arg >> 1}
		err := tk.f.Encode(w)
		out = append(hashOf(w.dev.buf), errStr(err)...)
	case "refrag":
		// the samples of one track of the task's first fragment are put into a new fragment of the task's own and
		// encoded (what a track extractor does)
		if tk.f == nil || tk.f.Init == nil || len(tk.f.Segments) == 0 || len(tk.f.Segments[0].Fragments) == 0 {
			return
		}
		src := tk.f.Segments[0].Fragments[0]
		trexs := tk.f.Init.Moov.Mvex.Trexs
		if src.Moof == nil || src.Mdat == nil || len(trexs) == 0 {
			return
		}
		trex := trexs[st.arg%len(trexs)]
		fs, err := src.GetFullSamples(trex)
		if err != nil {
			out = []byte(err.Error())
			return
		}
		nf, err := mp4.CreateFragment(1, trex.TrackID)
		if err != nil {
			out = []byte(err.Error())
			return
		}
		for _, s := range fs {
			nf.AddFullSample(s)
		}
		w := &c20Dev{tk: tk}
		err = nf.Encode(w)
		out = append(hashOf(w.buf), errStr(err)...)
	case "encodeSW":
		if tk.f == nil {
			return
		}
		sw := bits.NewFixedSliceWriter(int(tk.f.Size()) + 4096)
		err := tk.f.EncodeSW(sw)
		out = append(hashOf(sw.Bytes()), errStr(err)...)
	case "samples":
		if tk.f == nil || tk.f.Init == nil {
			return
		}
		h := sha256.New()
		for _, trex := range tk.f.Init.Moov.Mvex.Trexs {
			for _, sg := range tk.f.Segments {
				for _, fr := range sg.Fragments {
					if fr.Moof == nil || fr.Mdat == nil {
						continue
					}
					fs, err := fr.GetFullSamples(trex)
					if err != nil {
						h.Write([]byte(err.Error()))
						continue
					}
					for _, s := range fs {
						fmt.Fprintf(h, "%d/%d/%d/%d/%d:", s.Size, s.Dur, s.Flags, s.CompositionTimeOffset, s.DecodeTime)
						h.Write(s.Data)
					}
				}
			}
		}
		out = h.Sum(nil)[:8]
	case "updateSidx":
		if tk.f == nil || !tk.f.IsFragmented() || tk.f.Init == nil || len(tk.f.Segments) == 0 {
			return
		}
		err := tk.f.UpdateSidx(true, st.arg == 1)
		var b bytes.Buffer
		if err == nil {
			err = tk.f.Encode(&b)
		}
		out = append(hashOf(b.Bytes()), errStr(err)...)
	case "encrypt":
		if tk.f == nil || tk.f.Init == nil {
			return
		}
		// key and IV are sub-slices of a key-material blob shared (read-only) by all tasks: every task has its
		// own key; the IV is 8 or 16 bytes and is followed in memory by other tasks' material
		ko := 64 + 16*(sc.task%8)
		key := keymat[ko : ko+16]
		io := 8 * (st.arg % 4)
		iv := keymat[io : io+8+8*(st.arg%2)]
		kid, _ := mp4.NewUUIDFromString("00112233445566778899aabbccddeeff")
		scheme := []string{"cenc", "cbcs"}[st.arg/2%2]
		ipd, err := mp4.InitProtect(tk.f.Init, key, iv, scheme, kid, nil)
		if err == nil {
			for _, sg := range tk.f.Segments {
				for _, fr := range sg.Fragments {
					if e := mp4.EncryptFragment(fr, key, iv, ipd); e != nil && err == nil {
						err = e
					}
				}
			}
		}
		// written to the task's own device: every Write is an I/O point, so another task may encrypt its fragments
		// while this one is still writing
		w := &c20Dev{tk: tk}
		if err == nil {
			err = tk.f.Encode(w)
		}
		out = append(hashOf(w.buf), errStr(err)...)
	case "decrypt":
		if tk.f == nil || tk.f.Init == nil {
			return
		}
		key, _ := hex.DecodeString(c20KeyFor(sc, st))
		di, err := mp4.DecryptInit(tk.f.Init)
		if err == nil {
			for _, sg := range tk.f.Segments {
				if e := mp4.DecryptSegment(sg, di, key); e != nil && err == nil {
					err = e
				}
			}
		}
		var b bytes.Buffer
		if err == nil {
			err = tk.f.Encode(&b)
		}
		out = append(hashOf(b.Bytes()), errStr(err)...)
	case "annexb":
		ab := annexb[st.arg%len(annexb)]
		nalus := avc.ExtractNalusFromByteStream(ab)
		spss, ppss := avc.GetParameterSetsFromByteStream(ab)
		cp := append([]byte(nil), ab...) // conversion works in place: on a private copy
		sample := avc.ConvertByteStreamToNaluSample(cp)
		back := avc.ConvertSampleToByteStream(append([]byte(nil), sample...))
		h := sha256.New()
		for _, n := range nalus {
			h.Write(n)
		}
		fmt.Fprintf(h, "%d/%d/%d/%d", len(spss), len(ppss), len(sample), len(back))
		h.Write(sample)
		h.Write(back)
		out = h.Sum(nil)[:8]
	case "parsePS":
		ab := annexb[st.arg%len(annexb)]
		spss, ppss := avc.GetParameterSetsFromByteStream(ab)
		h := sha256.New()
		spsMap := map[uint32]*avc.SPS{}
		for _, s := range spss {
			sps, err := avc.ParseSPSNALUnit(s, true)
			if err == nil {
				spsMap[uint32(sps.ParameterID)] = sps
				jb, _ := json.Marshal(sps)
				h.Write(jb)
			} else {
				h.Write([]byte(err.Error()))
			}
		}
		for _, p := range ppss {
			pps, err := avc.ParsePPSNALUnit(p, spsMap)
			if err == nil {
				jb, _ := json.Marshal(pps)
				h.Write(jb)
			} else {
				h.Write([]byte(err.Error()))
			}
		}
		for _, n := range avc.ExtractNalusOfTypeFromByteStream(avc.NALU_SEI, ab, false) {
			var sps *avc.SPS
			for id := uint32(0); id < 32 && sps == nil; id++ { // lowest id: never iterate a map for a decision
				sps = spsMap[id]
			}
			msgs, err := avc.ParseSEINalu(n, sps)
			fmt.Fprintf(h, "%d/%v", len(msgs), err)
			for _, m := range msgs {
				h.Write([]byte(m.String()))
			}
		}
		out = h.Sum(nil)[:8]
	}
}

var c20RunKeys []string

func c20KeyFor(sc *c20Script, st c20Step) string { return c20RunKeys[sc.input] }

func readRepoFile(rel string) ([]byte, error) {
	return os.ReadFile(sim.RepoDir() + "/" + rel)
}

// c20DrawScript draws the script of one task.
func c20DrawScript(t *sim.Tape, nInputs int, ins []c20Input) c20Script {
	sc := c20Script{input: t.Draw(nInputs)}
	in := ins[sc.input]
	viaSR := t.Bool()
	lazy := false
	if viaSR {
		sc.steps = append(sc.steps, c20Step{"decodeSR", 0})
	} else if t.Chance(250) {
		sc.steps = append(sc.steps, c20Step{"decodeLazy", 0})
		lazy = true
	} else {
		// bit 0: reads are I/O points (scheduling points inside the call); bit 1: start-on-moof flag
		sc.steps = append(sc.steps, c20Step{"decodeRd", []int{0, 2}[t.Draw(2)] | t.Draw(2)})
	}
	n := 2 + t.Draw(9)
	mutated := false
	for i := 0; i < n; i++ {
		k := t.Draw(12)
		if lazy && k >= 2 && k <= 7 {
			k = 10 // a lazily decoded file has no media data in memory: its operations are the range reads/copies
		}
		switch k {
		case 10:
			if lazy {
				sc.steps = append(sc.steps, c20Step{"copy", t.Draw(42)})
			} else {
				sc.steps = append(sc.steps, c20Step{"info", t.Draw(3)})
			}
		case 11:
			switch t.Draw(4) {
			case 0:
				sc.steps = append(sc.steps, c20Step{"fault", t.Draw(20)})
			case 3:
				if !lazy {
					sc.steps = append(sc.steps, c20Step{"brands", t.Draw(4)})
				}
			case 1:
				sc.steps = append(sc.steps, c20Step{"seiWrite", t.Draw(64)})
			default:
				sc.steps = append(sc.steps, c20Step{"seiBuild", t.Draw(256)})
			}
		case 0, 1:
			sc.steps = append(sc.steps, c20Step{"info", t.Draw(3)})
		case 2:
			if t.Chance(300) {
				sc.steps = append(sc.steps, c20Step{"refrag", t.Draw(4)})
			} else {
				// bit 0: box-tree mode; bits 1..: 0 = healthy device, k>0 = write k is refused
				sc.steps = append(sc.steps, c20Step{"encode", t.Draw(2) | t.Draw(2)*(1+t.Draw(48))<<1})
			}
		case 3:
			sc.steps = append(sc.steps, c20Step{"encodeSW", 0})
		case 4:
			sc.steps = append(sc.steps, c20Step{"samples", 0})
		case 5:
			if in.frag && !mutated {
				sc.steps = append(sc.steps, c20Step{"updateSidx", t.Draw(2)})
			}
		case 6:
			if in.clear && !mutated {
				// in-place encryption of what was decoded: with the slice path the sample data IS the shared input
				if viaSR && !t.Chance(250) {
					continue // keep the aliasing scenario to a minority of runs (it is a recorded finding)
				}
				sc.steps = append(sc.steps, c20Step{"encrypt", t.Draw(4)})
				mutated = true
				if viaSR {
					sc.writesInput = true
				}
			}
		case 7:
			if in.encKey != "" && !mutated {
				if viaSR && !t.Chance(250) {
					continue
				}
				sc.steps = append(sc.steps, c20Step{"decrypt", 0})
				mutated = true
				if viaSR {
					sc.writesInput = true
				}
			}
		case 8:
			sc.steps = append(sc.steps, c20Step{"annexb", t.Draw(8)})
		case 9:
			sc.steps = append(sc.steps, c20Step{"parsePS", t.Draw(8)})
		}
	}
	return sc
}

func c20Run(r *sim.Run) {
	t := r.T
	// ---- shared read-only inputs of this run (fresh copies of corpus bytes) and per-task scripts
	nIn := 1 + t.Draw(3)
	var ins []c20Input
	shared := make([][]byte, nIn)
	c20RunKeys = make([]string, nIn)
	for i := range shared {
		in := c20Inputs[t.Draw(len(c20Inputs))]
		ins = append(ins, in)
		shared[i] = append([]byte(nil), in.master...)
		c20RunKeys[i] = in.encKey
	}
	keyMaster := make([]byte, 64+16*8)
	t.Sub().Fill(keyMaster)
	keymat := append([]byte(nil), keyMaster...)
	annexb := make([][]byte, len(c20AnnexB))
	for i := range annexb {
		annexb[i] = append([]byte(nil), c20AnnexB[i]...)
	}
	nTasks := 2 + t.Draw(5)
	scripts := make([]c20Script, nTasks)
	tainted := make([]bool, nIn)
	for i := range scripts {
		scripts[i] = c20DrawScript(t, nIn, ins)
		scripts[i].task = i
		if scripts[i].writesInput {
			tainted[scripts[i].input] = true
		}
	}
	for i, sc := range scripts {
		var ks []string
		for _, s := range sc.steps {
			ks = append(ks, fmt.Sprintf("%s(%d)", s.kind, s.arg))
		}
		r.Logf("task %d on input %d (%s): %s", i+1, sc.input, ins[sc.input].name, strings.Join(ks, " "))
	}
	fp0 := c20Fingerprint()
	// runs must not inherit pooled objects (sync.Pool contents) from earlier runs of this worker process: two
	// collections drop them, so that what a task finds in a pool depends on this run's history only
	runtime.GC()
	runtime.GC()
	sim.NewRaceReports() // discard anything older
	// ---- concurrent phase
	tasks := make([]*c20Task, nTasks)
	steps := make([][]func(), nTasks)
	for i := range scripts {
		tk := &c20Task{}
		tasks[i] = tk
		sc := &scripts[i]
		for _, st := range sc.steps {
			st := st
			steps[i] = append(steps[i], func() { c20Exec(tk, sc, st, shared, annexb, keymat) })
		}
	}
	free := t.Chance(150)
	var sched *sim.Sched
	if !free {
		// emptying all sync.Pools before every step is slow (two GCs): done in a seeded third of the runs
		sched = &sim.Sched{Isolate: sim.RaceEnabled && t.Chance(300), MaxYields: 4 + t.Draw(24)}
	}
	for _, tk := range tasks {
		tk.sch, tk.free = sched, free
	}
	if free {
		// mode B: the same scripts free-running behind a start barrier (cross-check; timing decides nothing in the verdict)
		procs := []int{1, 4, 16}[t.Draw(3)]
		old := runtime.GOMAXPROCS(procs)
		start := make(chan struct{})
		var wg sync.WaitGroup
		for i := range steps {
			wg.Add(1)
			go func(st []func()) {
				defer wg.Done()
				<-start
				for _, f := range st {
					f()
				}
			}(steps[i])
		}
		close(start)
		wg.Wait()
		runtime.GOMAXPROCS(old)
		r.Event("free-running", procs)
		r.Probe("mode-B-free-running")
	} else {
		s := sched
		if s.Isolate {
			r.Probe("pools-isolated")
		}
		// one processor for two thirds of the serialised runs: which pooled object (sync.Pool) a task gets is then a
		// function of the schedule alone; the other third keeps the default so that cross-processor pool paths run too
		oldProcs := 0
		if t.Chance(667) {
			oldProcs = runtime.GOMAXPROCS(1)
			r.Probe("single-processor")
		}
		// no collection at a moment the tape did not choose: a GC empties sync.Pools, and when it happens depends on the
		// heap history of the worker process (Isolate collects explicitly at step boundaries)
		oldGC := debug.SetGCPercent(-1)
		order := s.RunTasks(steps, func(runnable []int) int { return t.Draw(len(runnable)) })
		debug.SetGCPercent(oldGC)
		if oldProcs > 0 {
			runtime.GOMAXPROCS(oldProcs)
		}
		for _, tk := range tasks {
			tk.sch = nil
		}
		if len(order) > 0 {
			r.Probe("io-point-schedule")
		}
		r.Logf("schedule: %v", order)
		for _, o := range order {
			r.Event("run", o)
		}
		switches := 0
		for i := 1; i < len(order); i++ {
			if order[i] != order[i-1] {
				switches++
			}
		}
		if switches >= 2 {
			r.NonTriv = true
		}
		r.Probe("mode-A-serialised")
	}
	// ---- oracle (iv): package-level state (first: it is the deterministic one of the sensors)
	if fp1 := c20Fingerprint(); fp1 != fp0 {
		r.Violate("c20-global-state", "package-level registries/tables changed during the run")
	}
	if c20SetupDirty {
		r.Violate("c20-global-state", "package-level registries/tables changed while this process decoded the corpus once, sequentially, before the first run")
	}
	// ---- oracle (i): race detector
	for _, rr := range sim.NewRaceReports() {
		if rr.Harness {
			panic(sim.HarnessAbort{Msg: "race report confined to the harness:\n" + rr.Text})
		}
		r.Violate(rr.Class(), "data race between caller goroutines working on their own objects:\n%s", rr.Text)
	}
	// ---- oracle (iii): shared inputs bit-identical
	for i := range shared {
		if !bytes.Equal(shared[i], ins[i].master) {
			who := "?"
			for ti, sc := range scripts {
				if sc.input == i && sc.writesInput {
					who = fmt.Sprintf("task %d (%s)", ti+1, c20Kinds(sc))
				}
			}
			cls := "c20-input-mutated"
			if tainted[i] {
				cls += ":slice-path-decode+in-place-crypto"
			}
			r.Violate(cls, "shared read-only input %d (%s) was modified (first changed byte %d); writer: %s", i, ins[i].name, firstDiff(shared[i], ins[i].master), who)
		}
	}
	if !bytes.Equal(keymat, keyMaster) {
		r.Violate("c20-input-mutated:key-material", "the shared read-only key/IV material was modified (first changed byte %d)", firstDiff(keymat, keyMaster))
		copy(keymat, keyMaster)
	}
	// ---- oracle (ii): every task got exactly what it gets when run alone (pristine inputs)
	for i := range shared {
		copy(shared[i], ins[i].master)
	}
	for ti := range scripts {
		solo := &c20Task{}
		sc := &scripts[ti]
		// "alone" means alone in the process too: objects the concurrent phase (or the previous solo script) left in
		// sync.Pools are dropped first
		runtime.GC()
		runtime.GC()
		for _, st := range sc.steps {
			c20Exec(solo, sc, st, shared, annexb, keymat)
		}
		// a solo run may itself write into the shared input (the recorded aliasing finding): restore
		copy(shared[sc.input], ins[sc.input].master)
		if tainted[sc.input] {
			r.Probe("output-comparison-skipped(input written by a slice-path+crypto task)")
			continue
		}
		got := tasks[ti].outs
		if len(got) != len(solo.outs) {
			r.Violate("c20-interference", "task %d produced %d step results concurrently, %d alone", ti+1, len(got), len(solo.outs))
			continue
		}
		for si := range got {
			if !bytes.Equal(got[si], solo.outs[si]) {
				r.Violate("c20-interference", "task %d step %d (%s on %s): result differs from the same script run alone (%q vs %q)", ti+1, si, sc.steps[si].kind, ins[sc.input].name, trunc(got[si], 60), trunc(solo.outs[si], 60))
			}
		}
	}
	_ = work.ByName
}

func c20Kinds(sc c20Script) string {
	var ks []string
	for _, s := range sc.steps {
		ks = append(ks, s.kind)
	}
	return strings.Join(ks, "+")
}

func init() {
	sim.Register(&sim.Prop{
		ID:    "C20",
		Level: "exploration",
		Rule: "each run: 1-3 shared read-only input byte slices (fresh copies of corpus files) and 2-6 caller tasks, each with a seeded script of 3-12 steps over its OWN objects (decode by reader or slice path, Info at 3 levels, Encode box-tree/segment, EncodeSW, GetFullSamples, UpdateSidx+Encode, InitProtect+EncryptFragment, DecryptInit+DecryptSegment, Annex B conversions, SPS/PPS/SEI parsing, lazy decode + ReadData/CopyData of seeded ranges through the task's own device handle, decode of streams that end inside a header / 64-bit size field / box body). " +
			"Every Read/Seek/Write a task makes on its own device handle is a scheduling point INSIDE the library call (budget 4-27 per task). " +
			"Mode A (85%): built with -race, tasks are real goroutines serialised by a race-invisible baton in an order drawn from the tape at every step boundary and I/O point; mode B (15%): the same scripts free-running behind a barrier at GOMAXPROCS 1/4/16. Oracles: no race report with an mp4ff frame, each task's per-step results equal the same script run alone, SHA of every shared input unchanged, registry/table fingerprint unchanged. " +
			"non-trivial = at least two task switches in the drawn schedule; distinct = hash of the schedule (task id per step) and scripts.",
		Assumptions: []string{"the box-decoder registry is not modified (excluded by the statement)", "in-place conversions (ConvertByteStreamToNaluSample etc.) are given private copies: they are documented as in place",
			"slice-path decoding aliases the caller's buffer; scripts that then encrypt/decrypt in place are generated in a minority of runs and their effect on the shared input is the recorded finding", "race detector (ThreadSanitizer) with suppress_equal_stacks=0; it is a sound but not complete sensor: runtime-internal synchronisation (sync.Pool in fmt, atomics) can order two tasks and hide a race, so in a seeded third of the runs all pools are emptied (two GCs) before every step, the detector runs with history_size=7 (with the default history the previous access of a long-running task cannot be restored and the report is silently dropped), and replay/minimisation re-execute a tape up to 6 times"},
		Real: realLib, Stub: []string{"caller scheduling (baton scheduler, tape-drawn)", "virtual time: none (library reads no clock)"}, RealNoFault: append([]string{"Go race detector runtime"}, realNoFault...),
		Runs:        map[string]int{"quick": 2000, "thorough": 200000},
		HangBudget:  120e9,
		Setup:       c20Setup,
		Run:         c20Run,
		Race:        true,
		Attempts:    6,
		FatalIsViol: true,
		WantProbes:  []string{"mode-A-serialised", "mode-B-free-running"},
	})
}
