//go:build go1.21

package props

import (
	"bytes"
	"fmt"

	"github.com/Eyevinn/mp4ff/internal/vsim/ref"
	"github.com/Eyevinn/mp4ff/internal/vsim/sim"
)

// C02 — Size() == bytes written == header size fields; repeated/interleaved Encode/Info are idempotent.
// Simulated dimension: where the sink fails (every write op, device-full byte budgets), slice-writer
// capacity shortfall, and the caller's history of Size/Info/Encode/EncodeSW calls.

const c02MaxEnum = 400

func c02PickNode(r *sim.Run, src *objSource) node {
	t := r.T
	if t.Chance(400) {
		var agg []node
		for _, n := range src.nodes {
			if n.depth == 0 {
				agg = append(agg, n)
			}
		}
		if len(agg) > 0 {
			return agg[t.Draw(len(agg))]
		}
	}
	return src.nodes[t.Draw(len(src.nodes))]
}

// An encoder that panics has not "reported success": C02/C03 demand nothing then (crash-freedom of
// re-encoding is C04's subject and is checked there, including trun optimisation).
func encodeTo(r *sim.Run, what string, o encodable, s *sim.Sink) (err error) {
	if perr := noPanic(r, func() { err = o.Encode(s) }); perr != nil {
		return perr
	}
	return
}

func encodeSWTo(r *sim.Run, what string, o encodable, capacity int) (out []byte, err, acc error) {
	sw := sim.NewFaultSliceWriter(capacity)
	if perr := noPanic(r, func() { err = o.EncodeSW(sw) }); perr != nil {
		return sw.Bytes(), perr, sw.AccError()
	}
	return sw.Bytes(), err, sw.AccError()
}

func c02Run(r *sim.Run) {
	t := r.T
	src := drawSource(r)
	nd := c02PickNode(r, src)
	o := nd.obj
	r.Logf("source=%s node=%s", src.desc, nd.desc)
	r.Event("node", int(sim.HashString(nd.desc)&0xffff))
	var sizeBefore uint64
	r.Guard("Size", func() { sizeBefore = o.Size() })
	// which encoder touches the structure first matters when trun optimisation rewrites it during the first encoding
	var swFirst []byte
	if t.Chance(250) {
		if out, err, _ := encodeSWTo(r, "EncodeSW(first)", o, int(sizeBefore)+64+t.Draw(64)); err == nil {
			swFirst = append([]byte(nil), out...)
			r.Probe("slice-writer-encodes-first")
		}
	}
	clean := sim.NewSink(nil)
	clean.KeepB = true
	if err := encodeTo(r, "Encode(clean)", o, clean); err != nil {
		r.Probe("clean-encode-fails(vacuous)")
		r.Logf("clean encode fails: %v (property is conditional on success)", err)
		// ... but the other encoder may still report success, and then the statement binds it
		out, e2, _ := encodeSWTo(r, "EncodeSW(large)", o, int(sizeBefore)+64+t.Draw(64))
		if e2 == nil {
			var sz uint64
			r.Guard("Size", func() { sz = o.Size() })
			if uint64(len(out)) != sz {
				r.Violate("c02-sw-size", "%s: Encode fails (%v) but EncodeSW reports success having written %d bytes while Size() is %d", nd.desc, err, len(out), sz)
			} else if nd.boxSeq {
				if err := ref.CheckSizes(out); err != nil {
					r.Violate("c02-header-size", "%s: EncodeSW succeeded (Encode fails); size fields of the written boxes are inconsistent: %v", nd.desc, err)
				}
			}
		}
		return
	}
	M := append([]byte(nil), clean.Buf...)
	if swFirst != nil && !bytes.Equal(swFirst, M) {
		r.Violate("c02-reencode-differs", "%s: EncodeSW first wrote %d bytes, Encode right after it %d bytes that differ from them at %d (same structure encoded twice)", nd.desc, len(swFirst), len(M), firstDiff(swFirst, M))
	}
	W := clean.Writes
	bounds := append([]int(nil), clean.Bounds...)
	var sizeAfter uint64
	r.Guard("Size", func() { sizeAfter = o.Size() })
	if uint64(len(M)) != sizeAfter {
		r.Violate("c02-size-after", "%s: Encode wrote %d bytes, Size() afterwards reports %d", nd.desc, len(M), sizeAfter)
	}
	if !src.optimize && !src.built && uint64(len(M)) != sizeBefore {
		r.Violate("c02-size-before", "%s: Encode wrote %d bytes, Size() beforehand reported %d (no trun optimisation)", nd.desc, len(M), sizeBefore)
	}
	if nd.boxSeq {
		if err := ref.CheckSizes(M); err != nil {
			r.Violate("c02-header-size", "%s: size fields of the written boxes are inconsistent: %v", nd.desc, err)
		}
	}
	// EncodeSW into a slice writer larger than Size(): an under-estimating Size() shows as a different length
	if out, err, acc := encodeSWTo(r, "EncodeSW(large)", o, len(M)+64+t.Draw(64)); err == nil && acc == nil {
		if len(out) != len(M) {
			r.Violate("c02-sw-size", "%s: EncodeSW wrote %d bytes, Size() is %d", nd.desc, len(out), len(M))
		} else if !bytes.Equal(out, M) {
			r.Violate("c02-sw-bytes", "%s: EncodeSW bytes differ from Encode bytes at %d", nd.desc, firstDiff(out, M))
		}
	}
	mode := t.Draw(4)
	r.Event("mode", mode)
	switch mode {
	case 0: // fail write k, for every k (sampled when there are too many)
		ks := make([]int, 0, W)
		if W <= c02MaxEnum {
			for k := 1; k <= W; k++ {
				ks = append(ks, k)
			}
			r.Probe("write-points-enumerated-completely")
		} else {
			for i := 0; i < c02MaxEnum; i++ {
				ks = append(ks, 1+t.Draw(W))
			}
		}
		for _, k := range ks {
			s := sim.NewSink(r)
			s.FailAtOp = k
			err := encodeTo(r, fmt.Sprintf("Encode(fail write %d/%d)", k, W), o, s)
			c02CheckFailed(r, nd, "write error at op", k, s, err, M)
		}
		r.Logf("enumerated %d failing write points of %d", len(ks), W)
	case 1: // device full at byte budget b
		var bs []int
		for _, b := range bounds {
			for _, d := range []int{-1, 0, 1} {
				if b+d >= 0 && b+d < len(M) {
					bs = append(bs, b+d)
				}
			}
		}
		if len(bs) > c02MaxEnum {
			sel := make([]int, 0, c02MaxEnum)
			for i := 0; i < c02MaxEnum; i++ {
				sel = append(sel, bs[t.Draw(len(bs))])
			}
			bs = sel
		}
		bs = append(bs, 0)
		for i := 0; i < 8 && len(M) > 1; i++ {
			bs = append(bs, t.Draw(len(M)))
		}
		for _, b := range bs {
			s := sim.NewSink(r)
			s.Capacity = b
			err := encodeTo(r, fmt.Sprintf("Encode(device full at %d)", b), o, s)
			c02CheckFailed(r, nd, "device full at byte", b, s, err, M)
		}
		r.Logf("enumerated %d device-full budgets", len(bs))
	case 2: // slice writer capacity shortfall
		maxd := min(len(M), 64)
		ds := make([]int, 0, maxd+4)
		for d := 1; d <= maxd; d++ {
			ds = append(ds, d)
		}
		for i := 0; i < 4 && len(M) > 64; i++ {
			ds = append(ds, 65+t.Draw(len(M)-64))
		}
		for _, d := range ds {
			out, err, acc := encodeSWTo(r, fmt.Sprintf("EncodeSW(capacity Size-%d)", d), o, len(M)-d)
			r.Fault("slice-short")
			if err == nil {
				r.Violate("c02-sw-short-success", "%s: EncodeSW into a slice writer %d bytes too small returned nil (accumulated error: %v), %d of %d bytes written", nd.desc, d, acc, len(out), len(M))
			}
			_ = out // what a failed EncodeSW leaves in the slice is unspecified (accumulated-error design): not checked
		}
		out, err, acc := encodeSWTo(r, "EncodeSW(exact)", o, len(M))
		if err != nil || acc != nil {
			r.Violate("c02-sw-exact-fails", "%s: EncodeSW into a slice writer of exactly Size()=%d bytes failed: %v / %v", nd.desc, len(M), err, acc)
		} else if !bytes.Equal(out, M) {
			r.Violate("c02-sw-bytes", "%s: EncodeSW(exact) bytes differ from Encode bytes at %d", nd.desc, firstDiff(out, M))
		}
	case 3: // history of Size / Info / Encode / EncodeSW with good and faulty sinks
		n := 2 + t.Draw(10)
		for i := 0; i < n; i++ {
			op := t.Draw(6)
			switch op {
			case 0:
				var sz uint64
				r.Guard("Size", func() { sz = o.Size() })
				if sz != uint64(len(M)) {
					r.Violate("c02-size-drift", "%s: Size() reports %d in the middle of a history, the encoding has %d bytes", nd.desc, sz, len(M))
				}
				r.Event("h-size")
			case 1:
				lvl := []string{"", "all:1", "all:2", "trun:1,senc:1", "all:3"}[t.Draw(5)]
				s := sim.NewSink(r)
				s.Discard = true
				if t.Chance(300) {
					s.FailAtOp = 1 + t.Draw(20)
				}
				r.Guard("Info", func() { _ = o.Info(s, lvl, "", "  ") })
				r.Event("h-info", btoi(s.Failed))
			case 2, 3:
				s := sim.NewSink(r)
				if op == 3 {
					if t.Bool() {
						s.FailAtOp = 1 + t.Draw(W)
					} else {
						s.Capacity = t.Draw(len(M))
					}
				}
				err := encodeTo(r, "Encode(history)", o, s)
				if s.FailAtOp > 0 || s.Capacity >= 0 {
					c02CheckFailed(r, nd, "history fault", 0, s, err, M)
				} else if err != nil || !bytes.Equal(s.Buf, M) {
					r.Violate("c02-not-idempotent", "%s: Encode number %d in a history differs from the first encoding (err=%v, first diff %d, len %d vs %d)", nd.desc, i, err, firstDiff(s.Buf, M), len(s.Buf), len(M))
				}
				r.Event("h-encode", btoi(err != nil))
			case 4, 5:
				c := len(M)
				if op == 5 {
					c = t.Draw(len(M) + 1)
				} else if t.Bool() {
					c += t.Draw(32)
				}
				out, err, acc := encodeSWTo(r, "EncodeSW(history)", o, c)
				if err == nil && !bytes.Equal(out, M) {
					r.Violate("c02-not-idempotent", "%s: EncodeSW in a history reported success but differs from the first encoding (len %d vs %d, first diff %d)", nd.desc, len(out), len(M), firstDiff(out, M))
				}
				r.Event("h-encodesw", btoi(err != nil || acc != nil))
			}
		}
	}
	// I3: final clean encode equals the model, whatever failed or was printed in between
	fin := sim.NewSink(nil)
	err := encodeTo(r, "Encode(final)", o, fin)
	if err != nil || !bytes.Equal(fin.Buf, M) {
		r.Violate("c02-state-corrupted", "%s: clean Encode after the fault/history phase differs from the first encoding (err=%v, len %d vs %d, first diff %d)", nd.desc, err, len(fin.Buf), len(M), firstDiff(fin.Buf, M))
	}
	var sz uint64
	r.Guard("Size", func() { sz = o.Size() })
	if sz != uint64(len(M)) {
		r.Violate("c02-size-drift", "%s: Size() reports %d at the end, the encoding has %d bytes", nd.desc, sz, len(M))
	}
}

// c02CheckFailed: an Encode into a faulty sink. I1: success only if everything was accepted and equals M.
// (What a FAILED encode leaves in the sink is not constrained by the property and is only counted.)
func c02CheckFailed(r *sim.Run, nd node, kind string, at int, s *sim.Sink, err error, M []byte) {
	if err == nil {
		if s.Failed {
			r.Violate("c02-swallowed-write-error", "%s: Encode reported success although the sink failed (%s %d); sink accepted %d of %d bytes", nd.desc, kind, at, s.N, len(M))
		} else if !bytes.Equal(s.Buf, M) {
			r.Violate("c02-not-idempotent", "%s: Encode into a sink that never failed differs from the first encoding", nd.desc)
		} else {
			r.Probe("fault-point-beyond-encoding")
		}
		return
	}
	if !s.Failed {
		r.Violate("c02-spurious-error", "%s: Encode failed (%v) although the sink accepted every write", nd.desc, err)
	}
	if len(s.Buf) <= len(M) && bytes.Equal(s.Buf, M[:len(s.Buf)]) {
		r.Probe("failed-encode-left-a-prefix")
	} else {
		r.Probe("failed-encode-left-non-prefix") // not demanded by the property (it is conditional on success): counted only
	}
}

func init() {
	sim.Register(&sim.Prop{
		ID:    "C02",
		Level: "fault_enumeration",
		Rule: "each run: one node (File/InitSegment/MediaSegment/Fragment/any box at any depth) of a freshly decoded corpus file (reader or slice path, box-tree or segment mode, trun optimisation on/off) or of a packager-built production; " +
			"first fault-free encoding M is the model; then one of: (0) Encode with write k failing for EVERY k in 1..W (sampled only if W>400), (1) device-full at every write boundary -1/0/+1 plus interior budgets, " +
			"(2) EncodeSW with capacity Size()-d for every d in 1..min(Size,64) plus larger d, exact and larger capacity, (3) a seeded history of Size/Info(level, good|failing sink)/Encode(good|failing)/EncodeSW(exact|short|long); then a final clean encode. " +
			"non-trivial = at least one sink/slice fault fired inside an encode; distinct = hash of (source, decode path, modes, node, fault points, history).",
		Assumptions: []string{"EncodeSW 'reports success' is read strictly: the returned error is nil (the accumulated error of the slice writer is not consulted)", "objects with a lazily written mdat payload are excluded: their Size() includes the payload that Encode does not write, by documented design (C08)",
			"Size() beforehand is compared only for decoded objects without trun optimisation"},
		Real: realLib, Stub: stubIO, RealNoFault: realNoFault,
		Runs:       map[string]int{"quick": 300000, "thorough": 15000000},
		Setup:      setupObjects,
		Run:        c02Run,
		WantFaults: []string{"write-eio", "write-full", "slice-short"},
		WantProbes: []string{"write-points-enumerated-completely"},
	})
}
