//go:build go1.21

package props

import (
	"bytes"
	"fmt"

	"github.com/Eyevinn/mp4ff/bits"
	"github.com/Eyevinn/mp4ff/internal/vsim/ref"
	"github.com/Eyevinn/mp4ff/internal/vsim/sim"
	"github.com/Eyevinn/mp4ff/internal/vsim/work"
	"github.com/Eyevinn/mp4ff/mp4"
)

// C05 — samples written into fragments are read back exactly.
// Simulated dimension: the API history of the packager node, where fragments/segments are cut,
// encoder and optimisation, foreign boxes, and how the player fetches (whole stream vs. per segment
// against a separately delivered init, in seeded order with repeats) and receives (delivery chunking).

type gotSample struct {
	Data  []byte
	Size  uint32
	Dur   uint32
	Flags uint32
	Cto   int32
	Dts   uint64
}

func cmpSamples(r *sim.Run, class, who string, ti int, want []work.SampleRec, got []gotSample) {
	if len(want) != len(got) {
		r.Violate(class+"-count", "%s: track index %d: %d samples read back, %d were written", who, ti, len(got), len(want))
		return
	}
	for i := range want {
		w, g := want[i], got[i]
		switch {
		case g.Size != uint32(len(w.Data)):
			r.Violate(class+"-size", "%s: track index %d sample %d: size %d, written %d", who, ti, i, g.Size, len(w.Data))
		case !bytes.Equal(g.Data, w.Data):
			r.Violate(class+"-bytes", "%s: track index %d sample %d: payload differs (first diff at %d of %d)", who, ti, i, firstDiff(g.Data, w.Data), len(w.Data))
		case g.Dur != w.Dur:
			r.Violate(class+"-dur", "%s: track index %d sample %d: duration %d, written %d", who, ti, i, g.Dur, w.Dur)
		case g.Flags != w.Flags:
			r.Violate(class+"-flags", "%s: track index %d sample %d: flags %#x, written %#x", who, ti, i, g.Flags, w.Flags)
		case g.Cto != w.Cto:
			r.Violate(class+"-cto", "%s: track index %d sample %d: composition offset %d, written %d", who, ti, i, g.Cto, w.Cto)
		case g.Dts != w.Dts:
			r.Violate(class+"-dts", "%s: track index %d sample %d: decode time %d, written %d", who, ti, i, g.Dts, w.Dts)
		}
	}
}

// libExtract reads the samples of every fragment of f for each track through Fragment.GetFullSamples.
// Returns per fragment (in file order) per track index.
func libExtract(r *sim.Run, f *mp4.File, init *mp4.InitSegment, nTracks int) [][][]gotSample {
	var out [][][]gotSample
	for _, seg := range f.Segments {
		for _, frag := range seg.Fragments {
			per := make([][]gotSample, nTracks)
			for ti := 0; ti < nTracks; ti++ {
				trex, ok := init.Moov.Mvex.GetTrex(uint32(ti + 1))
				if !ok {
					r.Violate("c05-trex", "no trex for track %d in decoded init", ti+1)
					continue
				}
				var fs []mp4.FullSample
				var err error
				r.Guard("GetFullSamples", func() { fs, err = frag.GetFullSamples(trex) })
				if err != nil {
					r.Violate("c05-getfullsamples", "GetFullSamples(track %d) failed: %v", ti+1, err)
					continue
				}
				for _, s := range fs {
					per[ti] = append(per[ti], gotSample{Data: s.Data, Size: s.Size, Dur: s.Dur, Flags: s.Flags, Cto: s.CompositionTimeOffset, Dts: s.DecodeTime})
				}
			}
			out = append(out, per)
		}
	}
	return out
}

func refExtract(data []byte, d *ref.Demux, nTracks int) [][][]gotSample {
	var out [][][]gotSample
	for _, fr := range d.Fragments {
		per := make([][]gotSample, nTracks)
		for _, ft := range fr.Tracks {
			ti := int(ft.TrackID) - 1
			if ti < 0 || ti >= nTracks {
				continue
			}
			for _, s := range ft.Samples {
				per[ti] = append(per[ti], gotSample{Data: s.Bytes(data), Size: s.Size, Dur: s.Dur, Flags: s.Flags, Cto: s.Cto, Dts: s.Dts})
			}
		}
		out = append(out, per)
	}
	return out
}

func decodeWith(r *sim.Run, what string, data []byte, viaSR bool, cfg sim.ReadCfg) (*mp4.File, error) {
	var f *mp4.File
	var err error
	if viaSR {
		r.Guard("DecodeFileSR("+what+")", func() { f, err = mp4.DecodeFileSR(bits.NewFixedSliceReader(data)) })
	} else {
		h := sim.NewHandle(r, what, data, cfg)
		r.Guard("DecodeFile("+what+")", func() { f, err = mp4.DecodeFile(sim.StreamReader{H: h}) })
	}
	return f, err
}

func c05CheckFrags(r *sim.Run, who string, p *work.Production, frs []work.FragRec, got [][][]gotSample) {
	if len(got) != len(frs) {
		r.Violate("c05-fragcount", "%s: %d fragments read back, %d emitted", who, len(got), len(frs))
		return
	}
	for fi, fr := range frs {
		for ti := range p.Tracks {
			cmpSamples(r, "c05", fmt.Sprintf("%s fragment seq=%d (%s)", who, fr.Seq, fr.Mode), ti, p.Log[ti][fr.From[ti]:fr.To[ti]], got[fi][ti])
		}
	}
}

func c05Run(r *sim.Run) {
	t := r.T
	opts := work.PackOpts{MaxTracks: 3, MaxSegs: 3, MaxFrags: 3, MaxSamples: 6, Foreign: true, NALVideo: t.Bool(), BigSamples: t.Chance(100), SplitTruns: true, MixIntervalFull: true, HugeDurs: true, LargeMdat: true, WriteFaults: true, ManySamples: true, EncodeBetween: true}
	var p *work.Production
	var err error
	r.Guard("packager", func() { p, err = work.Package(r, opts) })
	if p != nil && p.SwallowedWriteError != "" {
		r.Violate("c05-swallowed-write-error", "%s: the samples of that segment would be published incomplete without the producer noticing", p.SwallowedWriteError)
	}
	if err != nil {
		r.Violate("c05-packager-error", "a documented-valid API history failed: %v", err)
		return
	}
	nT := len(p.Tracks)
	var allFrags []work.FragRec
	for _, s := range p.Segs {
		allFrags = append(allFrags, s.Frags...)
	}
	cfg := sim.DrawDelivery(t)
	viaSR := t.Bool()
	if t.Bool() {
		// (a) whole stream: init followed by all segments, in order
		stream := p.Stream()
		r.Event("fetch-whole", btoi(viaSR))
		r.Logf("player: whole stream %d bytes viaSR=%v delivery=%+v", len(stream), viaSR, cfg)
		f, err := decodeWith(r, "stream", stream, viaSR, cfg)
		if err != nil {
			r.Violate("c05-decode", "decoding init+segments failed: %v", err)
			return
		}
		if f.Init == nil {
			r.Violate("c05-decode", "decoded stream has no init segment")
			return
		}
		c05CheckFrags(r, "library(whole stream)", p, allFrags, libExtract(r, f, f.Init, nT))
		d, err := ref.DemuxStream(stream, nil)
		if err != nil {
			r.Violate("c05-ref-walk", "reference demuxer cannot walk the emitted stream: %v", err)
			return
		}
		c05CheckFrags(r, "reference(whole stream)", p, allFrags, refExtract(stream, d, nT))
		return
	}
	// (b) init delivered separately; segments fetched one by one in seeded order, with repeats
	r.NonTriv = true
	fi, err := decodeWith(r, "init", p.InitBytes, viaSR, cfg)
	if err != nil || fi.Init == nil {
		r.Violate("c05-decode", "decoding the init segment failed: %v", err)
		return
	}
	dInit, err := ref.DemuxStream(p.InitBytes, nil)
	if err != nil || dInit.Movie == nil {
		r.Violate("c05-ref-walk", "reference demuxer cannot read the init segment: %v", err)
		return
	}
	nFetch := len(p.Segs) + t.Draw(3)
	seen := make([]int, len(p.Segs))
	for k := 0; k < nFetch; k++ {
		si := k
		if k >= len(p.Segs) || t.Chance(400) {
			si = t.Draw(len(p.Segs))
		}
		seen[si]++
		if seen[si] > 1 {
			r.Fault("segment-duplicated")
		}
		if si != k {
			r.Fault("segment-reordered")
		}
		seg := p.Segs[si]
		r.Event("fetch-seg", si, btoi(viaSR))
		r.Logf("player: fetch segment %d (%d bytes) viaSR=%v", si, len(seg.Bytes), viaSR)
		f, err := decodeWith(r, fmt.Sprintf("seg%d", si), seg.Bytes, viaSR, sim.DrawDelivery(t))
		if err != nil {
			r.Violate("c05-decode", "decoding media segment %d alone failed: %v", si, err)
			return
		}
		c05CheckFrags(r, fmt.Sprintf("library(segment %d alone)", si), p, seg.Frags, libExtract(r, f, fi.Init, nT))
		d, err := ref.DemuxStream(seg.Bytes, dInit.Movie.Trex)
		if err != nil {
			r.Violate("c05-ref-walk", "reference demuxer cannot walk segment %d: %v", si, err)
			return
		}
		c05CheckFrags(r, fmt.Sprintf("reference(segment %d alone)", si), p, seg.Frags, refExtract(seg.Bytes, d, nT))
	}
}

func init() {
	sim.Register(&sim.Prop{
		ID:    "C05",
		Level: "exploration",
		Rule: "each run: a packager node builds an init (1-3 tracks) and 1-3 segments x 1-3 fragments by a seeded history of AddFullSample / AddFullSampleToTrack / AddSample / AddSamples / AddSampleToTrack (payload written separately) / AddSampleInterval on single- and multi-track fragments " +
			"(tracks may get no sample), sample fields from colliding pools, foreign boxes (emsg, prft, free, skip, uuid tfxd/tfrf/unknown, unknown four-cc) in front of moofs and inside moof/traf, trun optimisation on/off, Encode vs EncodeSW; " +
			"a player node fetches the whole stream or the init separately and segments in seeded order with repeats, through the reader path with seeded delivery or the slice path, and extracts samples with GetFullSamples and with the independent reference demuxer. " +
			"non-trivial = a delivery fault fired or segments were fetched separately; distinct = hash of (API op sequence with track indices, segment options, fetch order, delivered read sizes).",
		Assumptions: []string{"only API histories that the doc comments allow are generated (no mixing of data parts and monolithic data, single-track helpers only on single-track fragments, DecodeTime of each sample = previous + duration)",
			"fault-free transport only (truncation/corruption is C04's configuration)", "live packager/player alternation is not simulated: the two nodes share no object"},
		Real: realLib, Stub: []string{"io.Reader delivery (SimDisk handle)", "segment fetch order / duplication (unit transport)", "virtual device time"}, RealNoFault: realNoFault,
		Runs:       map[string]int{"quick": 500000, "thorough": 30000000},
		Setup:      work.SetupPackager,
		Run:        c05Run,
		WantFaults: []string{"read-short", "read-zero", "read-data+eof", "segment-duplicated", "segment-reordered"},
	})
}
