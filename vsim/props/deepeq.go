//go:build go1.21

package props

import (
	"fmt"
	"reflect"
)

// deepEquiv compares two values structurally, including unexported fields, treating nil and
// empty slices/maps as equal. It returns "" or a path to the first difference.
func deepEquiv(a, b interface{}) string {
	seen := map[[2]uintptr]bool{}
	return deq(reflect.ValueOf(a), reflect.ValueOf(b), "", seen, 0)
}

// deepIgnore lists bookkeeping fields recorded by the decoder (stream positions); they are compared
// explicitly where a property talks about positions and ignored where it talks about structure.
var deepIgnore = map[string]bool{}

func deq(a, b reflect.Value, path string, seen map[[2]uintptr]bool, depth int) string {
	if depth > 64 {
		return ""
	}
	if !a.IsValid() || !b.IsValid() {
		if a.IsValid() != b.IsValid() {
			return path + ": one side invalid"
		}
		return ""
	}
	if a.Type() != b.Type() {
		return fmt.Sprintf("%s: type %s vs %s", path, a.Type(), b.Type())
	}
	switch a.Kind() {
	case reflect.Bool:
		if a.Bool() != b.Bool() {
			return fmt.Sprintf("%s: %v vs %v", path, a.Bool(), b.Bool())
		}
	case reflect.Int, reflect.Int8, reflect.Int16, reflect.Int32, reflect.Int64:
		if a.Int() != b.Int() {
			return fmt.Sprintf("%s: %d vs %d", path, a.Int(), b.Int())
		}
	case reflect.Uint, reflect.Uint8, reflect.Uint16, reflect.Uint32, reflect.Uint64, reflect.Uintptr:
		if a.Uint() != b.Uint() {
			return fmt.Sprintf("%s: %d vs %d", path, a.Uint(), b.Uint())
		}
	case reflect.Float32, reflect.Float64:
		if a.Float() != b.Float() {
			return fmt.Sprintf("%s: %v vs %v", path, a.Float(), b.Float())
		}
	case reflect.String:
		if a.String() != b.String() {
			return fmt.Sprintf("%s: %q vs %q", path, a.String(), b.String())
		}
	case reflect.Slice:
		if a.Len() != b.Len() {
			return fmt.Sprintf("%s: len %d vs %d", path, a.Len(), b.Len())
		}
		if a.Type().Elem().Kind() == reflect.Uint8 {
			for i := 0; i < a.Len(); i++ {
				if a.Index(i).Uint() != b.Index(i).Uint() {
					return fmt.Sprintf("%s[%d]: %d vs %d", path, i, a.Index(i).Uint(), b.Index(i).Uint())
				}
			}
			return ""
		}
		for i := 0; i < a.Len(); i++ {
			if d := deq(a.Index(i), b.Index(i), fmt.Sprintf("%s[%d]", path, i), seen, depth+1); d != "" {
				return d
			}
		}
	case reflect.Array:
		for i := 0; i < a.Len(); i++ {
			if d := deq(a.Index(i), b.Index(i), fmt.Sprintf("%s[%d]", path, i), seen, depth+1); d != "" {
				return d
			}
		}
	case reflect.Map:
		if a.Len() != b.Len() {
			return fmt.Sprintf("%s: map len %d vs %d", path, a.Len(), b.Len())
		}
		for _, k := range a.MapKeys() {
			bv := b.MapIndex(k)
			if !bv.IsValid() {
				return fmt.Sprintf("%s: key %v missing", path, k)
			}
			if d := deq(a.MapIndex(k), bv, fmt.Sprintf("%s[%v]", path, k), seen, depth+1); d != "" {
				return d
			}
		}
	case reflect.Ptr:
		if a.IsNil() || b.IsNil() {
			if a.IsNil() != b.IsNil() {
				return fmt.Sprintf("%s: nil vs non-nil pointer (%v/%v)", path, a.IsNil(), b.IsNil())
			}
			return ""
		}
		key := [2]uintptr{a.Pointer(), b.Pointer()}
		if seen[key] {
			return ""
		}
		seen[key] = true
		return deq(a.Elem(), b.Elem(), path, seen, depth+1)
	case reflect.Interface:
		if a.IsNil() || b.IsNil() {
			if a.IsNil() != b.IsNil() {
				return fmt.Sprintf("%s: nil vs non-nil interface", path)
			}
			return ""
		}
		return deq(a.Elem(), b.Elem(), path, seen, depth+1)
	case reflect.Struct:
		for i := 0; i < a.NumField(); i++ {
			if deepIgnore[a.Type().Field(i).Name] {
				continue
			}
			if d := deq(a.Field(i), b.Field(i), path+"."+a.Type().Field(i).Name, seen, depth+1); d != "" {
				return d
			}
		}
	case reflect.Func, reflect.Chan, reflect.UnsafePointer:
		// not compared
	}
	return ""
}
