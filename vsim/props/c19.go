//go:build go1.21

package props

import (
	"bytes"
	"encoding/binary"
	"encoding/hex"
	"fmt"

	"github.com/Eyevinn/mp4ff/aac"
	"github.com/Eyevinn/mp4ff/bits"
	"github.com/Eyevinn/mp4ff/internal/vsim/ref"
	"github.com/Eyevinn/mp4ff/internal/vsim/sim"
	"github.com/Eyevinn/mp4ff/internal/vsim/work"
	"github.com/Eyevinn/mp4ff/mp4"
)

// C19 — init segments built through the API are consistent and self-describing.
// Simulated dimension (stated honestly): only the caller's HISTORY of AddEmptyTrack / Set*Descriptor
// calls, plus the transport round trip (delivery schedule, either decode path). No fault dimension.

// Parameter sets (public test vectors, the same ones examples/initcreator uses) with their known dimensions.
var (
	c19AvcSPS, _  = hex.DecodeString("67640020accac05005bb0169e0000003002000000c9c4c000432380008647c12401cb1c31380")
	c19AvcPPS, _  = hex.DecodeString("68b5df20")
	c19HevcVPS, _ = hex.DecodeString("40010c01ffff022000000300b0000003000003007b18b024")
	c19HevcSPS, _ = hex.DecodeString("420101022000000300b0000003000003007ba0078200887db6718b92448053888892cf24a69272c9124922dc91aa48fca223ff000100016a02020201")
	c19HevcPPS, _ = hex.DecodeString("4401c0252f053240")
	c19Dac3, _    = hex.DecodeString("0000000b646163330c3dc0")
	c19Dec3, _    = hex.DecodeString("0000000e646563330c00200f0202")
)

type c19Track struct {
	media     string // argument given to AddEmptyTrack
	timescale uint32
	lang      string
	sps       []byte            // AVC: the supplied sequence parameter set (profile_idc seeded within the high family)
	w, h      int               // AVC: the luma picture size the supplied SPS codes
	dec3      *mp4.Dec3Box      // EC-3: configuration supplied as a struct (nil: the fixed box bytes)
	hevc      *work.HEVCSPSInfo // HEVC: what a harness-written SPS codes (nil for the fixed test vector)
	chroma    int               // AVC: chroma_format_idc and bit depths (minus 8) the supplied SPS codes
	bdl, bdc  int
	desc      string // avc1 avc3 hvc1 hev1 aac ac3 ec3 wvtt stpp none
	includePS bool
	aacObj    byte
	aacFreq   int
	str1      string
}

var c19Langs = []string{"und", "eng", "swe", "en", "sv", "en-US", "zh-Hant-TW", "de-CH-1996", "fr", "nob",
	// long but well-formed BCP-47 tags (RFC 5646 sets no maximum length)
	"de-Latn-DE-1996-u-co-phonebk-x-priv1", "sl-Latn-IT-rozaj-nedis-1994-u-co-standard-nu-latn-x-private1-private2"}
var c19Scales = []uint32{90000, 48000, 1000, 180000, 1, 44100, 0xffffffff, 12288}

// independent expectations
func c19Handler(media string) string {
	switch media {
	case "video":
		return "vide"
	case "audio":
		return "soun"
	case "subtitle", "stpp":
		return "subt"
	case "text", "wvtt":
		return "text"
	}
	return "????"
}

func c19MediaHeader(media string) string {
	switch media {
	case "video":
		return "vmhd"
	case "audio":
		return "smhd"
	case "subtitle", "stpp":
		return "sthd"
	}
	return "nmhd"
}

var aacFreqs = []int{96000, 88200, 64000, 48000, 44100, 32000, 24000, 22050, 16000, 12000, 11025, 8000, 7350}

func freqIdx(f int) int {
	for i, v := range aacFreqs {
		if v == f {
			return i
		}
	}
	return -1
}

// c19ExpectedASC computes the AudioSpecificConfig bits from ISO/IEC 14496-3 for what SetAACDescriptor documents.
func c19ExpectedASC(obj byte, freq int) []byte {
	var bitsV uint64
	n := 0
	var out []byte
	put := func(v uint64, w int) {
		for i := w - 1; i >= 0; i-- {
			bitsV = bitsV<<1 | (v>>uint(i))&1
			n++
			if n%8 == 0 {
				out = append(out, byte(bitsV))
				bitsV = 0
			}
		}
	}
	// samplingFrequencyIndex, or the escape value 15 followed by the frequency in 24 bits (14496-3 1.6.2.1)
	putFreq := func(f int) {
		if i := freqIdx(f); i >= 0 {
			put(uint64(i), 4)
		} else {
			put(15, 4)
			put(uint64(f), 24)
		}
	}
	switch obj {
	case 2:
		put(2, 5)
		putFreq(freq)
		put(2, 4)
		put(0, 3) // GASpecificConfig: frameLength, dependsOnCoreCoder, extensionFlag
	case 5, 29:
		put(uint64(obj), 5)
		putFreq(freq)
		if obj == 29 {
			put(1, 4)
		} else {
			put(2, 4)
		}
		putFreq(2 * freq)
		put(2, 5)
		put(0, 3)
	}
	for n%8 != 0 {
		put(0, 1)
	}
	return out
}

// c19Dec3Bytes writes the EC3SpecificBox for a configuration from ETSI TS 102 366 F.6: data_rate(13) num_ind_sub(3),
// per independent substream fscod(2) bsid(5) reserved(1) asvc(1) bsmod(3) acmod(3) lfeon(1) reserved(3)
// num_dep_sub(4) and chan_loc(9) if there are dependent substreams, else reserved(1).
func c19Dec3Bytes(d *mp4.Dec3Box) []byte {
	var out []byte
	var cur uint64
	n := 0
	put := func(v uint64, w int) {
		for i := w - 1; i >= 0; i-- {
			cur = cur<<1 | (v>>uint(i))&1
			n++
			if n%8 == 0 {
				out = append(out, byte(cur))
				cur = 0
			}
		}
	}
	put(uint64(d.DataRate), 13)
	put(uint64(len(d.EC3Subs)-1), 3)
	for _, s := range d.EC3Subs {
		put(uint64(s.FSCod), 2)
		put(uint64(s.BSID), 5)
		put(0, 1)
		put(uint64(s.ASVC), 1)
		put(uint64(s.BSMod), 3)
		put(uint64(s.ACMod), 3)
		put(uint64(s.LFEOn), 1)
		put(0, 3)
		put(uint64(s.NumDepSub), 4)
		if s.NumDepSub > 0 {
			put(uint64(s.ChanLoc), 9)
		} else {
			put(0, 1)
		}
	}
	for n%8 != 0 {
		put(0, 1)
	}
	box := make([]byte, 8, 8+len(out))
	binary.BigEndian.PutUint32(box, uint32(8+len(out)))
	copy(box[4:], "dec3")
	return append(box, out...)
}

func c19Build(r *sim.Run) (*mp4.InitSegment, []c19Track, error) {
	t := r.T
	init := mp4.CreateEmptyInit()
	n := 1 + t.Draw(6)
	var model []c19Track
	for i := 0; i < n; i++ {
		tr := c19Track{timescale: c19Scales[t.Draw(len(c19Scales))], lang: c19Langs[t.Draw(len(c19Langs))]}
		if t.Chance(100) {
			tr.timescale = uint32(1 + t.Draw(1<<30))
		}
		kind := t.Draw(10)
		switch kind {
		case 0, 1:
			tr.media, tr.desc, tr.includePS = "video", "avc1", true
		case 2:
			tr.media, tr.desc, tr.includePS = "video", "avc3", t.Bool()
		case 3:
			tr.media, tr.desc, tr.includePS = "video", "hvc1", true
		case 4:
			tr.media, tr.desc, tr.includePS = "video", "hev1", t.Bool()
		case 5:
			tr.media, tr.desc = "audio", "aac"
			tr.aacObj = []byte{aac.AAClc, aac.HEAACv1, aac.HEAACv2}[t.Draw(3)]
			tr.aacFreq = []int{48000, 44100, 24000, 32000, 48000, 44100, 64000, 88200, 96000, 7350, 8000, 11025, 16000, 22050, 22000, 37800}[t.Draw(16)]
		case 6:
			tr.media, tr.desc = "audio", "ac3"
		case 7:
			tr.media, tr.desc = "audio", "ec3"
			if t.Chance(400) {
				// an E-AC-3 configuration supplied as a struct: 1-3 independent substreams, some with dependent ones
				d := &mp4.Dec3Box{DataRate: uint16(32 + t.Draw(6000))}
				for k := 1 + t.Draw(3); k > 0; k-- {
					sub := mp4.EC3Sub{FSCod: byte(t.Draw(3)), BSID: 16, BSMod: byte(t.Draw(8)), ACMod: byte(t.Draw(8)), LFEOn: byte(t.Draw(2))}
					if t.Chance(300) {
						sub.NumDepSub = 1
						sub.ChanLoc = uint16(1 << uint(t.Draw(9)))
					}
					d.EC3Subs = append(d.EC3Subs, sub)
				}
				tr.dec3 = d
				r.Probe("ec3-config-from-struct")
			}
		case 8:
			tr.media, tr.desc = []string{"wvtt", "text"}[t.Draw(2)], "wvtt"
			tr.str1 = []string{"", "WEBVTT", "WEBVTT\nRegion: id=a", "WEBVTT\n", "WEBVTT\r\n", "WEBVTT - title\nRegion: id=b\r\n\r\n"}[t.Draw(6)]
		default:
			tr.media, tr.desc = []string{"stpp", "subtitle"}[t.Draw(2)], "stpp"
			tr.str1 = []string{"", "http://www.w3.org/ns/ttml", "urn:x a b"}[t.Draw(3)]
		}
		if tr.desc == "avc1" || tr.desc == "avc3" {
			// the same picture format under another profile_idc of the family that shares the SPS syntax (High,
			// High 10, High 4:2:2, High 4:4:4 Predictive, CAVLC 4:4:4, scalable/multiview/3D profiles)
			tr.sps = append([]byte(nil), c19AvcSPS...)
			tr.w, tr.h, tr.chroma = 1280, 720, 1
			if t.Chance(400) {
				// a sequence parameter set written by the harness (seeded profile, chroma format, picture size in
				// macroblocks, frame/field coding, cropping) together with the picture size it codes
				var d string
				tr.sps, tr.w, tr.h, tr.chroma, tr.bdl, tr.bdc, d = work.DrawAVCSPS(t)
				r.Logf("AVC SPS written by the harness: %s", d)
				r.Probe("avc-sps-generated")
			} else if t.Chance(300) {
				tr.sps[1] = []byte{110, 122, 244, 44, 83, 86, 118, 128, 139, 134, 135}[t.Draw(11)]
				r.Probe("avc-profile-other-than-100")
			}
		}
		if tr.desc == "hvc1" || tr.desc == "hev1" {
			tr.sps, tr.w, tr.h = c19HevcSPS, 960, 540
			if t.Chance(400) {
				var d string
				var hi work.HEVCSPSInfo
				tr.sps, tr.w, tr.h, hi, d = work.DrawHEVCSPS(t)
				tr.hevc = &hi
				r.Logf("HEVC SPS written by the harness: %s", d)
				r.Probe("hevc-sps-generated")
			}
		}
		if i == n-1 && t.Chance(60) {
			// the history stops right after AddEmptyTrack: the last track has no codec descriptor (empty stsd) yet
			tr.desc = "none"
			r.Probe("track-without-descriptor")
		}
		r.Event("AddEmptyTrack", kind, len(tr.lang))
		r.Logf("AddEmptyTrack(%d, %q, %q) + %s(includePS=%v obj=%d freq=%d %q)", tr.timescale, tr.media, tr.lang, tr.desc, tr.includePS, tr.aacObj, tr.aacFreq, tr.str1)
		init.AddEmptyTrack(tr.timescale, tr.media, tr.lang)
		trak := init.Moov.Traks[len(init.Moov.Traks)-1]
		var err error
		switch tr.desc {
		case "avc1", "avc3":
			err = trak.SetAVCDescriptor(tr.desc, [][]byte{tr.sps}, [][]byte{c19AvcPPS}, tr.includePS)
		case "hvc1", "hev1":
			err = trak.SetHEVCDescriptor(tr.desc, [][]byte{c19HevcVPS}, [][]byte{tr.sps}, [][]byte{c19HevcPPS}, nil, tr.includePS)
		case "aac":
			err = trak.SetAACDescriptor(tr.aacObj, tr.aacFreq)
		case "ac3":
			b, e := mp4.DecodeBoxSR(0, bits.NewFixedSliceReader(c19Dac3))
			if e != nil {
				return nil, nil, e
			}
			err = trak.SetAC3Descriptor(b.(*mp4.Dac3Box))
		case "ec3":
			if tr.dec3 != nil {
				err = trak.SetEC3Descriptor(tr.dec3)
				break
			}
			b, e := mp4.DecodeBoxSR(0, bits.NewFixedSliceReader(c19Dec3))
			if e != nil {
				return nil, nil, e
			}
			err = trak.SetEC3Descriptor(b.(*mp4.Dec3Box))
		case "wvtt":
			err = trak.SetWvttDescriptor(tr.str1)
		case "stpp":
			err = trak.SetStppDescriptor(tr.str1, "", "")
		}
		if err != nil {
			return nil, nil, fmt.Errorf("%s descriptor: %w", tr.desc, err)
		}
		model = append(model, tr)
	}
	return init, model, nil
}

func u16at(b []byte, off int64) int {
	if off < 0 || off+2 > int64(len(b)) {
		return -1
	}
	return int(binary.BigEndian.Uint16(b[off:]))
}

func cstr(b []byte) string {
	if i := bytes.IndexByte(b, 0); i >= 0 {
		return string(b[:i])
	}
	return string(b)
}

// c19CheckBytes reads the encoded init independently (vsim/ref) and compares it with the model.
func c19CheckBytes(r *sim.Run, data []byte, model []c19Track) {
	if err := ref.CheckSizes(data); err != nil {
		r.Violate("c19-sizes", "encoded init has inconsistent box sizes: %v", err)
	}
	top, _ := ref.Walk(data, 0, int64(len(data)), true)
	moov := ref.FindTop(top, "moov")
	if moov == nil || len(top) < 2 || top[0].Type != "ftyp" {
		r.Violate("c19-structure", "encoded init is not ftyp+moov")
		return
	}
	mi, err := ref.ParseMoov(data, moov)
	if err != nil {
		r.Violate("c19-structure", "reference cannot read moov: %v", err)
		return
	}
	if !mi.HasMvex {
		r.Violate("c19-mvex", "no mvex box: not a fragmented init")
	}
	traks := moov.FindAll("trak")
	if len(traks) != len(model) || len(mi.Tracks) != len(model) {
		r.Violate("c19-track-count", "%d trak boxes, %d tracks were added", len(traks), len(model))
		return
	}
	if len(mi.Trex) != len(model) {
		r.Violate("c19-trex", "%d distinct trex track ids for %d tracks", len(mi.Trex), len(model))
	}
	if n := len(moov.Find("mvex").FindAll("trex")); n != len(model) {
		r.Violate("c19-trex", "%d trex boxes for %d tracks", n, len(model))
	}
	for i, tr := range model {
		id := uint32(i + 1)
		rt := mi.Tracks[i]
		who := fmt.Sprintf("track %d (%s/%s)", id, tr.media, tr.desc)
		if rt.ID != id {
			r.Violate("c19-track-id", "%s: tkhd track id is %d", who, rt.ID)
		}
		if mi.Trex[id] == nil {
			r.Violate("c19-trex", "%s: no trex with its id", who)
		}
		if mi.NextTrack <= id {
			r.Violate("c19-next-track-id", "mvhd next_track_ID %d is not larger than track id %d", mi.NextTrack, id)
		}
		if rt.Timescale != tr.timescale {
			r.Violate("c19-timescale", "%s: mdhd timescale %d, supplied %d", who, rt.Timescale, tr.timescale)
		}
		if want := c19Handler(tr.media); rt.Handler != want {
			r.Violate("c19-handler", "%s: hdlr handler_type %q, media type %q calls for %q", who, rt.Handler, tr.media, want)
		}
		mdia := traks[i].Find("mdia")
		minf := mdia.Find("minf")
		if minf == nil {
			r.Violate("c19-structure", "%s: no minf", who)
			continue
		}
		if want := c19MediaHeader(tr.media); minf.Find(want) == nil {
			r.Violate("c19-media-header", "%s: media header box %q missing in minf", who, want)
		}
		// language
		mdhd := mdia.Find("mdhd")
		lb := u16at(data, mdhd.Payload()+20)
		if data[mdhd.Payload()] == 1 {
			lb = u16at(data, mdhd.Payload()+32)
		}
		l3 := string([]byte{byte(lb>>10&0x1f) + 0x60, byte(lb>>5&0x1f) + 0x60, byte(lb&0x1f) + 0x60})
		elng := mdia.Find("elng")
		if len(tr.lang) == 3 {
			if l3 != tr.lang {
				r.Violate("c19-language", "%s: mdhd language %q, supplied %q", who, l3, tr.lang)
			}
		} else {
			if elng == nil {
				r.Violate("c19-language", "%s: language tag %q needs an elng box, none present", who, tr.lang)
			} else if got := cstr(data[elng.Payload()+4 : elng.End()]); got != tr.lang {
				r.Violate("c19-language", "%s: elng language %q, supplied %q", who, got, tr.lang)
			}
			if l3 != "und" {
				r.Violate("c19-language", "%s: mdhd language %q with an extended tag, expected und", who, l3)
			}
		}
		// sample entry
		stsd := minf.Path("stbl", "stsd")
		if tr.desc == "none" {
			if stsd == nil || len(stsd.Children) != 0 || binary.BigEndian.Uint32(data[stsd.Payload()+4:]) != 0 {
				r.Violate("c19-sample-entry", "%s: no descriptor was set but stsd is not empty", who)
			}
			continue
		}
		if stsd == nil || len(stsd.Children) != 1 {
			r.Violate("c19-sample-entry", "%s: stsd does not hold exactly one sample entry", who)
			continue
		}
		if cnt := binary.BigEndian.Uint32(data[stsd.Payload()+4:]); cnt != 1 {
			r.Violate("c19-sample-entry", "%s: stsd entry_count %d", who, cnt)
		}
		se := stsd.Children[0]
		wantType := map[string]string{"avc1": "avc1", "avc3": "avc3", "hvc1": "hvc1", "hev1": "hev1", "aac": "mp4a", "ac3": "ac-3", "ec3": "ec-3", "wvtt": "wvtt", "stpp": "stpp"}[tr.desc]
		if se.Type != wantType {
			r.Violate("c19-sample-entry", "%s: sample entry %q, expected %q", who, se.Type, wantType)
			continue
		}
		seBytes := data[se.Start:se.End()]
		switch tr.desc {
		case "avc1", "avc3", "hvc1", "hev1":
			w, h := u16at(data, se.Payload()+24), u16at(data, se.Payload()+26)
			ww, wh := tr.w, tr.h
			if w != ww || h != wh {
				r.Violate("c19-dimensions", "%s: sample entry %dx%d, parameter set codes %dx%d", who, w, h, ww, wh)
			}
			tk := traks[i].Find("tkhd")
			tw := binary.BigEndian.Uint32(data[tk.End()-8:]) >> 16
			th := binary.BigEndian.Uint32(data[tk.End()-4:]) >> 16
			if int(tw) != ww || int(th) != wh {
				r.Violate("c19-dimensions", "%s: tkhd %dx%d, parameter set codes %dx%d", who, tw, th, ww, wh)
			}
			cfgType := "avcC"
			sets := [][]byte{tr.sps, c19AvcPPS}
			if tr.desc[0] == 'h' {
				cfgType = "hvcC"
				sets = [][]byte{c19HevcVPS, tr.sps, c19HevcPPS}
			}
			cfg := se.Find(cfgType)
			if cfg == nil {
				r.Violate("c19-codec-config", "%s: no %s box in the sample entry", who, cfgType)
				break
			}
			cb := data[cfg.Payload():cfg.End()]
			for _, ps := range sets {
				var l [2]byte
				binary.BigEndian.PutUint16(l[:], uint16(len(ps)))
				present := bytes.Contains(cb, append(l[:], ps...))
				if tr.includePS && !present {
					r.Violate("c19-parameter-sets", "%s: parameter set %x... not carried verbatim in %s", who, ps[:4], cfgType)
				}
				if !tr.includePS && present {
					r.Violate("c19-parameter-sets", "%s: parameter set present although includePS=false", who)
				}
			}
			if tr.desc[0] == 'a' && tr.sps[1] != 66 && tr.sps[1] != 77 && tr.sps[1] != 88 {
				// the record ends with chroma_format, bit_depth_luma_minus8, bit_depth_chroma_minus8, numOfSPSExt
				// (ISO/IEC 14496-15 5.3.3.1.2): they describe the supplied SPS
				if len(cb) >= 4 {
					tl := cb[len(cb)-4:]
					if int(tl[0]&3) != tr.chroma || int(tl[1]&7) != tr.bdl || int(tl[2]&7) != tr.bdc {
						r.Violate("c19-codec-config", "%s: avcC says chroma_format %d, bit depths 8+%d/8+%d; the supplied SPS codes chroma_format_idc %d, bit depths 8+%d/8+%d", who, tl[0]&3, tl[1]&7, tl[2]&7, tr.chroma, tr.bdl, tr.bdc)
					}
				}
			}
			if tr.desc[0] == 'h' && tr.hevc != nil {
				// HEVCDecoderConfigurationRecord (ISO/IEC 14496-15 8.3.3.1.2): byte 1 = profile_space(2) tier(1) profile_idc(5),
				// byte 12 = general_level_idc, bytes 16..18 = chroma_format_idc, bit_depth_luma_minus8, bit_depth_chroma_minus8
				// (low bits behind reserved ones): they describe the supplied SPS
				if len(cb) < 23 {
					r.Violate("c19-codec-config", "%s: hvcC of %d bytes", who, len(cb))
				} else if hi := tr.hevc; int(cb[1]&0x1f) != hi.Profile || int(cb[1]>>5&1) != hi.Tier || int(cb[12]) != hi.Level ||
					int(cb[16]&3) != hi.Chroma || int(cb[17]&7) != hi.BitDepthLuma8 || int(cb[18]&7) != hi.BitDepthChroma8 {
					r.Violate("c19-codec-config", "%s: hvcC says tier %d profile %d level %d chroma_format %d bit depths 8+%d/8+%d; the supplied SPS codes tier %d profile %d level %d chroma_format_idc %d bit depths 8+%d/8+%d",
						who, cb[1]>>5&1, cb[1]&0x1f, cb[12], cb[16]&3, cb[17]&7, cb[18]&7, hi.Tier, hi.Profile, hi.Level, hi.Chroma, hi.BitDepthLuma8, hi.BitDepthChroma8)
				}
			}
			if tr.desc[0] == 'a' { // profile, compatibility, level come from SPS bytes 1..3
				if len(cb) < 4 || !bytes.Equal(cb[1:4], tr.sps[1:4]) {
					r.Violate("c19-codec-config", "%s: avcC profile/compat/level %x, SPS has %x", who, cb[1:4], tr.sps[1:4])
				}
			}
		case "aac":
			want := c19ExpectedASC(tr.aacObj, tr.aacFreq)
			// DecoderSpecificInfo: tag 0x05, length (possibly with 0x80 continuation bytes), then the ASC
			ok := false
			for i := 0; i+2+len(want) <= len(seBytes); i++ {
				if seBytes[i] != 0x05 {
					continue
				}
				j := i + 1
				for j < len(seBytes) && seBytes[j] == 0x80 {
					j++
				}
				if j < len(seBytes) && int(seBytes[j]) == len(want) && j+1+len(want) <= len(seBytes) && bytes.Equal(seBytes[j+1:j+1+len(want)], want) {
					ok = true
					break
				}
			}
			if !ok {
				r.Violate("c19-codec-config", "%s: esds does not carry the AudioSpecificConfig %x for object type %d at %d Hz", who, want, tr.aacObj, tr.aacFreq)
			}
		case "ac3":
			if !bytes.Contains(seBytes, c19Dac3) {
				r.Violate("c19-codec-config", "%s: supplied dac3 box not carried verbatim", who)
			}
		case "ec3":
			want := c19Dec3
			if tr.dec3 != nil {
				want = c19Dec3Bytes(tr.dec3)
			}
			if !bytes.Contains(seBytes, want) {
				r.Violate("c19-codec-config", "%s: the sample entry does not carry the supplied E-AC-3 configuration (dec3 box %x expected)", who, want)
			}
		case "wvtt":
			want := tr.str1
			if want == "" {
				want = "WEBVTT"
			}
			if !bytes.Contains(seBytes, append([]byte("vttC"), want...)) {
				r.Violate("c19-codec-config", "%s: vttC config %q not found", who, want)
			}
		case "stpp":
			want := tr.str1
			if want == "" {
				want = "http://www.w3.org/ns/ttml"
			}
			if got := cstr(data[se.Payload()+8 : se.End()]); got != want {
				r.Violate("c19-codec-config", "%s: stpp namespace %q, supplied %q", who, got, want)
			}
		}
	}
}

func c19Run(r *sim.Run) {
	t := r.T
	var init *mp4.InitSegment
	var model []c19Track
	var err error
	r.Guard("init history", func() { init, model, err = c19Build(r) })
	if err != nil {
		r.Violate("c19-api-error", "a valid history failed: %v", err)
		return
	}
	// encode (either encoder)
	var data []byte
	if t.Bool() {
		s := sim.NewSink(nil)
		r.Guard("Encode", func() { err = init.Encode(s) })
		data = s.Buf
	} else {
		var sz uint64
		r.Guard("Size", func() { sz = init.Size() })
		sw := bits.NewFixedSliceWriter(int(sz))
		r.Guard("EncodeSW", func() { err = init.EncodeSW(sw) })
		if err == nil {
			err = sw.AccError()
		}
		data = sw.Bytes()
	}
	if err != nil {
		r.Violate("c19-encode", "encoding the built init failed: %v", err)
		return
	}
	c19CheckBytes(r, data, model)
	// the same init written to a device that refuses one write (and accepts the later ones): "it encodes" must not be
	// claimed for bytes that never arrived
	if t.Chance(300) {
		probe := sim.NewSink(nil)
		if init.Encode(probe) == nil && probe.Writes > 0 {
			s := sim.NewSink(r)
			s.FailAtOp = 1 + t.Draw(probe.Writes)
			var e error
			r.Guard("Encode(write error)", func() { e = init.Encode(s) })
			if e == nil && s.Failed {
				r.Violate("c19-encode-swallowed-write-error", "Encode of the built init reported success although write #%d of %d was refused (%d of %d bytes arrived)", s.FailAtOp, probe.Writes, len(s.Buf), len(data))
			}
		}
	}
	// transport and decode (both paths, seeded delivery)
	cfg := sim.DrawDelivery(t)
	viaSR := t.Bool()
	r.NonTriv = true
	f, err := decodeWith(r, "init", data, viaSR, cfg)
	if err != nil {
		r.Violate("c19-decode", "decoding the built init failed (viaSR=%v): %v", viaSR, err)
		return
	}
	if !f.IsFragmented() || f.Init == nil || f.Init.Moov == nil {
		r.Violate("c19-not-fragmented", "decoded init is not recognised as a fragmented init (IsFragmented=%v, Init=%v)", f.IsFragmented(), f.Init != nil)
		return
	}
	// for the Baseline/Main/Extended profiles the AVC configuration record has no chroma-format / bit-depth fields:
	// what the constructor put into those struct fields is not part of the encoded form and cannot come back
	for _, trak := range init.Moov.Traks {
		if sd := trak.Mdia.Minf.Stbl.Stsd; sd != nil && sd.AvcX != nil && sd.AvcX.AvcC != nil {
			switch c := &sd.AvcX.AvcC.DecConfRec; c.AVCProfileIndication {
			case 66, 77, 88:
				c.ChromaFormat, c.BitDepthLumaMinus1, c.BitDepthChromaMinus1, c.NumSPSExt = 0, 0, 0, 0
			}
		}
	}
	deepIgnore = map[string]bool{"StartPos": true} // positions exist only on the decoded side
	d := deepEquiv(f.Init.Moov, init.Moov)
	deepIgnore = map[string]bool{}
	if d != "" {
		r.Violate("c19-tree", "decoded moov differs from the built one at %s", d)
	}
	s2 := sim.NewSink(nil)
	r.Guard("Encode(decoded)", func() { err = f.Init.Encode(s2) })
	if err != nil || !bytes.Equal(s2.Buf, data) {
		r.Violate("c19-reencode", "re-encoding the decoded init differs (err=%v, first diff %d)", err, firstDiff(s2.Buf, data))
	}
	// fragments created for its track ids decode against it
	id := uint32(1 + t.Draw(len(model)))
	frag, _ := mp4.CreateFragment(1, id)
	rnd := t.Sub()
	var want []gotSample
	dts := uint64(t.Draw(100000))
	for i := 0; i < 1+t.Draw(3); i++ {
		pl := make([]byte, 1+t.Draw(64))
		rnd.Fill(pl)
		s := gotSample{Data: pl, Size: uint32(len(pl)), Dur: uint32(1 + t.Draw(3000)), Flags: mp4.NonSyncSampleFlags, Cto: int32(t.Draw(3)) * 512, Dts: dts}
		want = append(want, s)
		frag.AddFullSample(mp4.FullSample{Sample: mp4.Sample{Flags: s.Flags, Dur: s.Dur, Size: s.Size, CompositionTimeOffset: s.Cto}, DecodeTime: s.Dts, Data: pl})
		dts += uint64(s.Dur)
	}
	seg := mp4.NewMediaSegment()
	seg.AddFragment(frag)
	s3 := sim.NewSink(nil)
	r.Guard("segment Encode", func() { err = seg.Encode(s3) })
	if err != nil {
		r.Violate("c19-fragment", "encoding a fragment for track %d failed: %v", id, err)
		return
	}
	stream := append(append([]byte(nil), data...), s3.Buf...)
	f2, err := decodeWith(r, "init+fragment", stream, viaSR, sim.DrawDelivery(t))
	if err != nil || f2.Init == nil || len(f2.Segments) != 1 || len(f2.Segments[0].Fragments) != 1 {
		r.Violate("c19-fragment", "init + fragment for track %d does not decode to one segment with one fragment: %v", id, err)
		return
	}
	trex, ok := f2.Init.Moov.Mvex.GetTrex(id)
	if !ok {
		r.Violate("c19-trex", "decoded init has no trex for track %d", id)
		return
	}
	var fs []mp4.FullSample
	r.Guard("GetFullSamples", func() { fs, err = f2.Segments[0].Fragments[0].GetFullSamples(trex) })
	if err != nil || len(fs) != len(want) {
		r.Violate("c19-fragment", "fragment for track %d: %d samples read back, %d written (err=%v)", id, len(fs), len(want), err)
		return
	}
	for i := range fs {
		if !bytes.Equal(fs[i].Data, want[i].Data) || fs[i].Dur != want[i].Dur || fs[i].DecodeTime != want[i].Dts || fs[i].CompositionTimeOffset != want[i].Cto || fs[i].Flags != want[i].Flags {
			r.Violate("c19-fragment", "fragment for track %d: sample %d differs after decoding against the built init", id, i)
		}
	}
}

func init() {
	sim.Register(&sim.Prop{
		ID:    "C19",
		Level: "exploration",
		Rule: "each run: CreateEmptyInit, then 1-6 x (AddEmptyTrack(timescale pool incl. 1 and 2^32-1, media type video/audio/subtitle/stpp/text/wvtt, language pool incl. 2-letter and multi-subtag BCP-47 tags) + Set{AVC,HEVC,AAC,AC3,EC3,Wvtt,Stpp}Descriptor with avc1/avc3/hvc1/hev1 x includePS, AAC LC/HEv1/HEv2 x 4 rates); " +
			"encode by either encoder; the bytes are read by the independent walker/demuxer and compared with a reference model of the track list (ids, trex, next_track_ID, handler, media header, timescale, language/elng, sample entry type, dimensions, parameter sets verbatim, codec configuration); " +
			"then transport (seeded delivery, either decode path), deep comparison of decoded vs built tree, re-encode, and a fragment built for a seeded track id decoded against it. non-trivial = every run (history + transport); distinct = hash of the call history (media/codec kinds, language lengths) and delivered read sizes.",
		Assumptions: []string{"no fault or schedule dimension exists for this property: the simulator contributes seeded history search, replay, minimisation and the transport round trip", "expected handler/media-header per media type are taken from ISO/IEC 14496-12/-30 (subtitle and stpp -> subt/sthd; text and wvtt -> text/nmhd)",
			"parameter sets are fixed public test vectors with known coded dimensions (1280x720 AVC, 960x540 HEVC)", "media type \"subtitles\" (plural) is rejected by the library by design and not generated"},
		Real: realLib, Stub: []string{"io.Reader delivery (SimDisk handle)", "virtual device time"}, RealNoFault: realNoFault,
		Runs:  map[string]int{"quick": 250000, "thorough": 20000000},
		Setup: func() error { return nil },
		Run:   c19Run,
	})
}
