//go:build go1.21

package props

import (
	"bytes"
	"encoding/binary"
	"fmt"

	"github.com/Eyevinn/mp4ff/internal/vsim/ref"
	"github.com/Eyevinn/mp4ff/internal/vsim/sim"
	"github.com/Eyevinn/mp4ff/internal/vsim/work"
	"github.com/Eyevinn/mp4ff/mp4"
)

// C08 — lazy-mdat mode is observationally equal to in-memory mode.
// The lazy mode is a storage client: the simulator owns the disk (delivery schedule, position
// state across an operation history, EIO, seek errors, truncated file) and the sinks.

type c08File struct {
	cf     *work.CorpusFile
	mem    *mp4.File
	movie  *ref.MovieInfo
	nMdats int
}

var c08Files []*c08File

func c08Setup() error {
	if err := setupCorpus(); err != nil {
		return err
	}
	c, _ := work.LoadCorpus()
	for _, cf := range c {
		if !cf.HasMdat {
			continue
		}
		cf := cf
		func() {
			defer func() { recover() }() // files the library cannot decode are not workload material here (C04's business)
			f, err := decodeMem(cf.Data)
			if err != nil {
				return
			}
			e := &c08File{cf: cf, mem: f}
			if cf.Progressive {
				if moov := ref.FindTop(cf.Top, "moov"); moov != nil {
					mi, err := ref.ParseMoov(cf.Data, moov)
					if err == nil {
						e.movie = mi
					}
				}
			}
			c08Files = append(c08Files, e)
		}()
	}
	if len(c08Files) < 5 {
		return fmt.Errorf("c08: only %d usable corpus files", len(c08Files))
	}
	// progressive files from the raw muxer, built once from fixed seeds: 1-3 tracks, seeded chunking and interleaving,
	// stco/co64, uniform stsz, empty samples, mdat before/after moov, 64-bit mdat header
	for seed := uint64(1); seed <= 40; seed++ {
		spec, err := work.DrawMuxSpec(sim.NewTape(seed))
		if err != nil {
			continue
		}
		img, err := work.Mux(spec)
		if err != nil {
			continue
		}
		top, err := ref.Walk(img, 0, int64(len(img)), true)
		if err != nil {
			continue
		}
		f, err := decodeMem(img)
		if err != nil {
			return fmt.Errorf("c08: raw-muxer file (seed %d) does not decode: %v", seed, err)
		}
		cf := &work.CorpusFile{Path: fmt.Sprintf("mux-%d", seed), Name: fmt.Sprintf("mux-%d.mp4", seed), Data: img, Top: top, HasMoov: true, HasMdat: true, Progressive: true}
		e := &c08File{cf: cf, mem: f}
		if mi, err := ref.ParseMoov(img, ref.FindTop(top, "moov")); err == nil {
			e.movie = mi
		}
		c08Files = append(c08Files, e)
	}
	return nil
}

type mdatPair struct {
	mem, lazy *mp4.MdatBox
	box       *ref.Box
}

// pairTrees compares the lazily decoded tree with the in-memory one: types, sizes, positions, Info dump.
func c08CompareTrees(r *sim.Run, fm, fl *mp4.File, top []*ref.Box) []mdatPair {
	if len(fm.Children) != len(fl.Children) {
		r.Violate("c08-tree", "lazy tree has %d top-level boxes, in-memory %d", len(fl.Children), len(fm.Children))
		return nil
	}
	var pairs []mdatPair
	var pos, shift uint64
	for i := range fm.Children {
		a, b := fm.Children[i], fl.Children[i]
		if a.Type() != b.Type() || a.Size() != b.Size() {
			r.Violate("c08-tree", "top-level box %d: in-memory %s/%d, lazy %s/%d", i, a.Type(), a.Size(), b.Type(), b.Size())
			return nil
		}
		shift0 := shift // disk position of this box = pos + shift0
		if i < len(top) {
			// a non-mdat box stored with the 64-bit size form is re-encoded with the normal header by design: Size()
			// reports 8 bytes less than the disk box in both modes; recorded positions are positions on the disk
			want := uint64(top[i].Size)
			if top[i].Hdr == 16 && top[i].Type != "mdat" {
				want -= 8
			}
			if top[i].Type != b.Type() || want != b.Size() || uint64(top[i].Start) != pos+shift {
				r.Violate("c08-tree", "top-level box %d: disk has %s/%d at %d, lazy tree %s/%d at %d", i, top[i].Type, top[i].Size, top[i].Start, b.Type(), b.Size(), pos+shift)
				return nil
			}
			shift += uint64(top[i].Size) - want
		}
		switch x := a.(type) {
		case *mp4.MdatBox:
			y := b.(*mp4.MdatBox)
			if x.StartPos != y.StartPos || x.StartPos != pos+shift0 {
				r.Violate("c08-pos", "mdat %d StartPos: in-memory %d lazy %d disk %d", i, x.StartPos, y.StartPos, pos+shift0)
			}
			if x.PayloadAbsoluteOffset() != y.PayloadAbsoluteOffset() || x.HeaderSize() != y.HeaderSize() {
				r.Violate("c08-pos", "mdat %d payload offset/header size differ: %d/%d vs %d/%d", i, x.PayloadAbsoluteOffset(), x.HeaderSize(), y.PayloadAbsoluteOffset(), y.HeaderSize())
			}
			if i < len(top) {
				pairs = append(pairs, mdatPair{x, y, top[i]})
			}
		case *mp4.MoofBox:
			y := b.(*mp4.MoofBox)
			if x.StartPos != y.StartPos || x.StartPos != pos+shift0 {
				r.Violate("c08-pos", "moof %d StartPos: in-memory %d lazy %d disk %d", i, x.StartPos, y.StartPos, pos+shift0)
			}
		}
		pos += a.Size()
	}
	if fm.Size() != fl.Size() {
		r.Violate("c08-tree", "File.Size in-memory %d lazy %d", fm.Size(), fl.Size())
	}
	// File.Mdat (the media data box of a progressive file) must be the same top-level box in both modes
	idxOf := func(f *mp4.File) int {
		for i, c := range f.Children {
			if m, ok := c.(*mp4.MdatBox); ok && m == f.Mdat {
				return i
			}
		}
		return -1
	}
	if a, b := idxOf(fm), idxOf(fl); a != b {
		r.Violate("c08-tree", "File.Mdat is top-level box %d in in-memory mode but box %d in lazy mode", a, b)
	}
	if fm.IsFragmented() != fl.IsFragmented() || len(fm.Segments) != len(fl.Segments) {
		r.Violate("c08-tree", "fragmented/segments differ: %v/%d vs %v/%d", fm.IsFragmented(), len(fm.Segments), fl.IsFragmented(), len(fl.Segments))
		return pairs
	}
	for si := range fm.Segments {
		sa, sb := fm.Segments[si], fl.Segments[si]
		if sa.StartPos != sb.StartPos || len(sa.Fragments) != len(sb.Fragments) || sa.Size() != sb.Size() {
			r.Violate("c08-pos", "segment %d: start/frags/size in-memory %d/%d/%d lazy %d/%d/%d", si, sa.StartPos, len(sa.Fragments), sa.Size(), sb.StartPos, len(sb.Fragments), sb.Size())
			continue
		}
		for fi := range sa.Fragments {
			if sa.Fragments[fi].StartPos != sb.Fragments[fi].StartPos || sa.Fragments[fi].Size() != sb.Fragments[fi].Size() {
				r.Violate("c08-pos", "segment %d fragment %d: start/size in-memory %d/%d lazy %d/%d", si, fi,
					sa.Fragments[fi].StartPos, sa.Fragments[fi].Size(), sb.Fragments[fi].StartPos, sb.Fragments[fi].Size())
			}
		}
	}
	da, ea := infoDump(fm, "all:1")
	db, eb := infoDump(fl, "all:1")
	if (ea == nil) != (eb == nil) || da != db {
		r.Violate("c08-info", "Info(all:1) differs between modes: %s (errors %s / %s)", firstDiffLine(da, db), errStr(ea), errStr(eb))
	}
	return pairs
}

var c08WorkSizes = []int{0, 1, 2, 3, 7, 16, 4096, 1 << 20}

func c08DrawRange(t *sim.Tape, ps, pe int64) (int64, int64) {
	n := pe - ps
	switch t.Draw(6) {
	case 0:
		st := ps + int64(t.Draw(int(n)))
		return st, 1 + int64(t.Draw(int(pe-st)))
	case 1: // ends on the last payload byte
		st := ps + int64(t.Draw(int(n)))
		return st, pe - st
	case 2: // starts on the first payload byte
		return ps, 1 + int64(t.Draw(int(n)))
	case 3:
		return ps, n
	case 4: // small range at the end
		sz := int64(1 + t.Draw(int(min(n, 16))))
		return pe - sz, sz
	default: // small range somewhere
		sz := int64(1 + t.Draw(int(min(n, 4096))))
		st := ps + int64(t.Draw(int(n-sz+1)))
		return st, sz
	}
}

func c08Run(r *sim.Run) {
	t := r.T
	e := c08Files[t.Draw(len(c08Files))]
	img := e.cf.Data
	fm := e.mem
	movie := e.movie
	top := e.cf.Top
	variant := ""
	if e.cf.Progressive && t.Chance(30) {
		// a second NON-empty media data box (the library supports one): whatever the in-memory decoder says about the
		// file, the lazy decoder must say too
		k := 1 + t.Draw(40)
		extra := make([]byte, 8+k)
		binary.BigEndian.PutUint32(extra, uint32(8+k))
		copy(extra[4:], "mdat")
		var nd []byte
		if t.Bool() {
			nd = append(append([]byte(nil), img...), extra...)
		} else {
			at := top[len(top)-1].Start
			nd = append(append(append([]byte(nil), img[:at]...), extra...), img[at:]...)
		}
		var em, el error
		r.Guard("DecodeFile(mem)", func() { _, em = decodeMem(nd) })
		h := sim.NewHandle(r, e.cf.Name+"+2nd-mdat", nd, sim.DrawDelivery(t))
		r.Guard("DecodeFile(lazy)", func() { _, el = mp4.DecodeFile(h, mp4.WithDecodeMode(mp4.DecModeLazyMdat)) })
		r.Logf("file=%s with a second non-empty mdat (%d payload bytes): in-memory err=%v, lazy err=%v", e.cf.Name, k, em, el)
		r.Event("second-mdat", btoi(em != nil), btoi(el != nil))
		if (em == nil) != (el == nil) {
			r.Violate("c08-accept-differs", "%s with a second non-empty mdat box: in-memory decode says %q, lazy decode says %q", e.cf.Name, errStr(em), errStr(el))
		}
		r.Probe("second-nonempty-mdat")
		return
	}
	if e.cf.Progressive && t.Chance(400) {
		v := work.LayoutVariant{LargeMdat: t.Bool(), MdatFirst: t.Bool()}
		if !v.MdatFirst {
			v.MdatLast = t.Bool()
		}
		if t.Chance(250) {
			v.EmptyMdat = 1 + t.Draw(3)
			v.EmptyLarge = t.Bool()
		}
		if t.Chance(300) {
			v.FreePad = 8 + t.Draw(24)
			v.FreeLarge = t.Bool()
		}
		nd, err := work.ApplyLayout(img, v)
		if err == nil {
			f2, err := decodeMem(nd)
			if err != nil {
				r.Violate("c08-variant-decode", "in-memory decode of layout variant %v of %s failed: %v", v, e.cf.Name, err)
				return
			}
			top2, err := ref.Walk(nd, 0, int64(len(nd)), true)
			if err != nil {
				panic(sim.HarnessAbort{Msg: "variant not walkable: " + err.Error()})
			}
			mi, err := ref.ParseMoov(nd, ref.FindTop(top2, "moov"))
			if err != nil {
				panic(sim.HarnessAbort{Msg: "variant moov: " + err.Error()})
			}
			img, fm, movie, top = nd, f2, mi, top2
			variant = v.String()
			r.Probe("layout-variant")
			if v.LargeMdat {
				r.Probe("mdat-largesize")
			}
			if v.MdatFirst {
				r.Probe("mdat-before-moov")
			}
		}
	}
	if !e.cf.Progressive && movie == nil && t.Chance(150) {
		// fragmented stream: a free box (32- or 64-bit size form) in front of a seeded fragment
		var moofs []*ref.Box
		for _, b := range top {
			if b.Type == "moof" {
				moofs = append(moofs, b)
			}
		}
		if len(moofs) > 0 {
			at := moofs[t.Draw(len(moofs))].Start
			n := 16 + t.Draw(24)
			fb := make([]byte, n)
			binary.BigEndian.PutUint32(fb, uint32(n))
			copy(fb[4:], "free")
			large := t.Bool()
			if large {
				binary.BigEndian.PutUint32(fb, 1)
				binary.BigEndian.PutUint64(fb[8:], uint64(n))
			}
			nd := append(append(append([]byte(nil), img[:at]...), fb...), img[at:]...)
			f2, err := decodeMem(nd)
			top2, werr := ref.Walk(nd, 0, int64(len(nd)), true)
			if werr != nil {
				panic(sim.HarnessAbort{Msg: "variant not walkable: " + werr.Error()})
			}
			if err != nil {
				r.Violate("c08-variant-decode", "in-memory decode of %s with a free box (large=%v) in front of the moof at %d failed: %v", e.cf.Name, large, at, err)
				return
			}
			img, fm, top = nd, f2, top2
			variant = fmt.Sprintf("free(%d, large=%v) before moof at %d", n, large, at)
			r.Probe("fragmented-free-variant")
		}
	}
	if !e.cf.Progressive && movie == nil && variant == "" && t.Chance(150) {
		// fragmented stream: every media data box carries bytes no sample refers to (in front of the first sample, with
		// the data offsets of the track runs moved along, and behind the last one)
		lead, trail := 1+t.Draw(24), t.Draw(9)
		if nd, perr := work.PadMdat(img, lead, trail); perr == nil {
			if f2, derr := decodeMem(nd); derr == nil {
				top2, werr := ref.Walk(nd, 0, int64(len(nd)), true)
				if werr != nil {
					panic(sim.HarnessAbort{Msg: "variant not walkable: " + werr.Error()})
				}
				img, fm, top = nd, f2, top2
				variant = fmt.Sprintf("media data boxes with %d leading and %d trailing unused bytes", lead, trail)
				r.Probe("fragmented-padded-mdat")
			}
		}
	}
	cfg := sim.DrawDelivery(t)
	faulty := t.Chance(250)
	if faulty {
		switch t.Draw(4) {
		case 0:
			cfg.ErrAtOp = 1 + t.Draw(60)
			cfg.ErrPart = t.Bool()
		case 1:
			cfg.SeekErrAt = 1 + t.Draw(12)
		case 2:
			cfg.TruncAt = int64(t.Draw(len(img)))
		case 3:
			cfg.ErrAtOp = 1 + t.Draw(400)
		}
	}
	r.Logf("file=%s variant=[%s] len=%d delivery=%+v faulty=%v", e.cf.Name, variant, len(img), cfg, faulty)
	r.Event("file", int(sim.HashString(e.cf.Name+variant)&0xffff))
	h := sim.NewHandle(r, e.cf.Name, img, cfg)
	disk := img
	if cfg.TruncAt >= 0 {
		disk = img[:cfg.TruncAt]
	}
	var fl *mp4.File
	var err error
	r.Guard("DecodeFile(lazy)", func() {
		fl, err = mp4.DecodeFile(h, mp4.WithDecodeMode(mp4.DecModeLazyMdat))
	})
	if err != nil {
		if !faulty || !(h.Failed || cfg.TruncAt >= 0) {
			r.Violate("c08-lazy-decode-error", "lazy decode of %s failed without any fault: %v (in-memory decode succeeds)", e.cf.Name, err)
		}
		r.Logf("lazy decode failed under fault: %v", err)
		r.Event("decode-failed")
		return
	}
	var pairs []mdatPair
	if cfg.TruncAt < 0 {
		pairs = c08CompareTrees(r, fm, fl, top)
	} else {
		// truncated disk: the tree may legitimately be shorter. Pair what is there.
		for i, b := range fl.Children {
			if m, ok := b.(*mp4.MdatBox); ok && i < len(fm.Children) {
				if mm, ok := fm.Children[i].(*mp4.MdatBox); ok && i < len(top) {
					pairs = append(pairs, mdatPair{mm, m, top[i]})
				}
			}
		}
	}
	// keep only mdats with payload
	var mp []mdatPair
	for _, p := range pairs {
		if p.box.Size > p.box.Hdr {
			mp = append(mp, p)
		}
	}
	if len(mp) == 0 {
		return
	}
	nops := 1 + t.Draw(8)
	// results of earlier lazy reads are kept by the caller and looked at again after the whole history: in memory mode a
	// result is a view of immutable media data, so in lazy mode it must not change under the caller's feet either
	type kept struct {
		op     int
		st, sz int64
		got    []byte
	}
	var keep []kept
	defer func() {
		for _, k := range keep {
			if k.st+k.sz <= int64(len(disk)) && !bytes.Equal(k.got, disk[k.st:k.st+k.sz]) {
				r.Violate("c08-lazy-result-overwritten", "the bytes returned by lazy ReadData(%d,%d) in op %d were correct then, and differ from the disk image after later operations (first diff at %d)", k.st, k.sz, k.op, firstDiff(k.got, disk[k.st:k.st+k.sz]))
				return
			}
		}
	}()
	for op := 0; op < nops; op++ {
		p := mp[t.Draw(len(mp))]
		ps, pe := p.box.Payload(), p.box.End()
		kind := t.Draw(7)
		if !(e.cf.Progressive && movie != nil && fl.Moov != nil && fl.Mdat == p.lazy) && kind == 2 {
			kind = 0
		}
		if kind == 6 && (cfg.TruncAt >= 0 || !c08FragInterval(r, op, fm, fl, img, disk, h, faulty)) {
			kind = 0
		}
		switch kind {
		case 0, 5: // ReadData
			st, sz := c08DrawRange(t, ps, pe)
			c08Probes(r, st, sz, ps, pe, len(img))
			var got []byte
			var err error
			r.Guard("ReadData(lazy)", func() { got, err = p.lazy.ReadData(st, sz, h) })
			r.Logf("op%d ReadData(%d,%d) lazy -> %d bytes, err=%v", op, st, sz, len(got), err)
			r.Event("ReadData", btoi(err != nil))
			c08CheckBytes(r, "ReadData", st, sz, disk, got, err, faulty, h, false)
			if err == nil {
				keep = append(keep, kept{op, st, sz, got})
			}
			if cfg.TruncAt < 0 {
				var gm []byte
				var em error
				r.Guard("ReadData(mem)", func() { gm, em = p.mem.ReadData(st, sz, nil) })
				if em != nil {
					r.Violate("c08-mem-range-rejected", "in-memory ReadData(%d,%d) on mdat payload [%d,%d) rejected a valid range: %v (lazy mode: %s)", st, sz, ps, pe, em, errStr(err))
				} else if !bytes.Equal(gm, img[st:st+sz]) {
					r.Violate("c08-mem-bytes", "in-memory ReadData(%d,%d) returned wrong bytes (first diff at %d)", st, sz, firstDiff(gm, img[st:st+sz]))
				}
			}
		case 1: // CopyData
			st, sz := c08DrawRange(t, ps, pe)
			c08Probes(r, st, sz, ps, pe, len(img))
			sink := sim.NewSink(r)
			if faulty && t.Chance(300) {
				if t.Bool() {
					sink.FailAtOp = 1 + t.Draw(3)
				} else {
					sink.Capacity = t.Draw(int(sz))
				}
			}
			var n int64
			var err error
			r.Guard("CopyData(lazy)", func() { n, err = p.lazy.CopyData(st, sz, h, sink) })
			r.Logf("op%d CopyData(%d,%d) lazy -> n=%d err=%v", op, st, sz, n, err)
			r.Event("CopyData", btoi(err != nil))
			if err == nil && n != sz {
				r.Violate("c08-copy-count", "lazy CopyData(%d,%d) reported %d bytes as success", st, sz, n)
			}
			c08CheckBytes(r, "CopyData", st, sz, disk, sink.Buf, err, faulty, h, sink.Failed)
			if err != nil && sink.Failed {
				r.Probe("copy-sink-failed")
			}
			if cfg.TruncAt < 0 {
				s2 := sim.NewSink(nil)
				var n2 int64
				var em error
				r.Guard("CopyData(mem)", func() { n2, em = p.mem.CopyData(st, sz, nil, s2) })
				if em != nil {
					r.Violate("c08-mem-range-rejected", "in-memory CopyData(%d,%d) on mdat payload [%d,%d) rejected a valid range: %v (lazy mode: %s)", st, sz, ps, pe, em, errStr(err))
				} else if n2 != sz || !bytes.Equal(s2.Buf, img[st:st+sz]) {
					r.Violate("c08-mem-bytes", "in-memory CopyData(%d,%d) wrote %d bytes, wrong content or count", st, sz, n2)
				}
			}
		case 6: // sample interval of a fragment: done above
		case 2: // CopySampleData on a progressive file
			c08CopySamples(r, op, fm, fl, movie, img, disk, h, faulty, cfg.TruncAt >= 0)
		case 3: // lazy Encode writes exactly the header; header + copied payload == original box
			sink := sim.NewSink(r)
			var err error
			r.Guard("MdatBox.Encode(lazy)", func() { err = p.lazy.Encode(sink) })
			r.Event("EncodeLazy")
			if err != nil {
				r.Violate("c08-lazy-encode", "lazy mdat Encode failed: %v", err)
				break
			}
			if !bytes.Equal(sink.Buf, img[p.box.Start:ps]) {
				r.Violate("c08-lazy-encode", "lazy mdat Encode wrote %d bytes %x, the box header on disk is %x", len(sink.Buf), trunc(sink.Buf, 24), img[p.box.Start:ps])
				break
			}
			var n int64
			r.Guard("CopyData(lazy,whole)", func() { n, err = p.lazy.CopyData(ps, pe-ps, h, sink) })
			r.Logf("op%d lazy Encode + CopyData(whole) -> n=%d err=%v", op, n, err)
			if err == nil {
				if int64(len(disk)) >= pe && !bytes.Equal(sink.Buf, disk[p.box.Start:pe]) {
					r.Violate("c08-lazy-encode", "header + copied payload differs from the original box (first diff %d)", firstDiff(sink.Buf, disk[p.box.Start:pe]))
				}
				if int64(len(disk)) < pe {
					r.Violate("c08-short-success", "CopyData of whole payload succeeded on a disk truncated inside it")
				}
				r.Probe("lazy-encode-roundtrip")
			} else if !faulty || !(h.Failed || cfg.TruncAt >= 0) {
				r.Violate("c08-lazy-copy-error", "lazy CopyData of whole payload failed without fault: %v", err)
			}
		case 4: // top box list through the same handle (position state: must rewind first)
			if _, err := h.Seek(0, 0); err != nil {
				break
			}
			var lst []mp4.TopBoxInfo
			var err error
			r.Guard("GetTopBoxInfoList", func() { lst, err = mp4.GetTopBoxInfoList(h, "") })
			r.Event("TopBoxInfo", btoi(err != nil))
			if err != nil {
				if !faulty || !(h.Failed || cfg.TruncAt >= 0) {
					r.Violate("c08-topbox", "GetTopBoxInfoList failed without fault: %v", err)
				}
				break
			}
			if cfg.TruncAt < 0 {
				if len(lst) != len(top) {
					r.Violate("c08-topbox", "GetTopBoxInfoList found %d boxes, disk has %d", len(lst), len(top))
					break
				}
				for i := range lst {
					if lst[i].Type != top[i].Type || lst[i].Size != uint64(top[i].Size) || lst[i].StartPos != uint64(top[i].Start) {
						r.Violate("c08-topbox", "box %d: got %v, disk has %s/%d@%d", i, lst[i], top[i].Type, top[i].Size, top[i].Start)
					}
				}
			}
		}
	}
}

func trunc(b []byte, n int) []byte {
	if len(b) > n {
		return b[:n]
	}
	return b
}

func btoi(b bool) int {
	if b {
		return 1
	}
	return 0
}

func c08Probes(r *sim.Run, st, sz, ps, pe int64, flen int) {
	if st+sz == pe {
		r.Probe("range-ends-on-last-payload-byte")
		if pe == int64(flen) {
			r.Probe("range-ends-on-last-file-byte")
		}
	}
	if st == ps {
		r.Probe("range-starts-on-first-payload-byte")
	}
}

// c08CheckBytes applies the three-way oracle to the lazy result: ground truth is the disk image.
func c08CheckBytes(r *sim.Run, what string, st, sz int64, disk, got []byte, err error, faulty bool, h *sim.Handle, sinkFailed bool) {
	inDisk := st+sz <= int64(len(disk))
	if err == nil {
		if !inDisk {
			r.Violate("c08-short-success", "%s(%d,%d) succeeded but the disk ends at %d", what, st, sz, len(disk))
			return
		}
		if !bytes.Equal(got, disk[st:st+sz]) {
			r.Violate("c08-lazy-bytes", "%s(%d,%d) lazy mode returned %d bytes that differ from the disk image (first diff at %d)", what, st, sz, len(got), firstDiff(got, disk[st:st+sz]))
		}
		return
	}
	// failed
	if !faulty || !(h.Failed || !inDisk || sinkFailed) {
		r.Violate("c08-lazy-error", "%s(%d,%d) failed in lazy mode without any injected fault: %v", what, st, sz, err)
		return
	}
	if what == "CopyData" && len(got) > 0 {
		// what reached the sink must be a prefix of the truth
		lim := int64(len(disk))
		if st+int64(len(got)) > lim || !bytes.Equal(got, disk[st:st+int64(len(got))]) {
			r.Violate("c08-wrong-prefix", "%s(%d,%d) failed (%v) after writing %d bytes that are not a prefix of the requested range", what, st, sz, err, len(got))
		}
	}
}

// c08FragInterval: a sample interval of a seeded single-track, single-run fragment is asked for in both modes: the
// in-memory answer carries the bytes, the lazy answer says where they are (offset inside the media data box and size);
// reading that range through the handle must give the same bytes, and both must be the bytes of the file at that place.
// false: the file has no such fragment (the caller does something else instead).
func c08FragInterval(r *sim.Run, op int, fm, fl *mp4.File, img, disk []byte, h *sim.Handle, faulty bool) bool {
	t := r.T
	if fm.Init == nil || fm.Init.Moov == nil || fm.Init.Moov.Mvex == nil || fl.Init == nil || len(fm.Segments) != len(fl.Segments) {
		return false
	}
	type cand struct{ si, fi int }
	var cands []cand
	for si, sg := range fm.Segments {
		if len(sg.Fragments) != len(fl.Segments[si].Fragments) {
			return false
		}
		for fi, fr := range sg.Fragments {
			if fr.Moof != nil && fr.Mdat != nil && len(fr.Moof.Trafs) == 1 && len(fr.Moof.Traf.Truns) == 1 && fr.Moof.Traf.Trun.SampleCount() > 0 && fr.Moof.Traf.Tfhd != nil && fr.Moof.Traf.Tfdt != nil {
				cands = append(cands, cand{si, fi})
			}
		}
	}
	if len(cands) == 0 {
		return false
	}
	c := cands[t.Draw(len(cands))]
	a, b := fm.Segments[c.si].Fragments[c.fi], fl.Segments[c.si].Fragments[c.fi]
	if b.Moof == nil || b.Mdat == nil || len(b.Moof.Trafs) != 1 || len(b.Moof.Traf.Truns) != 1 {
		return false
	}
	trex, ok := fm.Init.Moov.Mvex.GetTrex(a.Moof.Traf.Tfhd.TrackID)
	if !ok {
		return false
	}
	n := int(a.Moof.Traf.Trun.SampleCount())
	first := 1 + t.Draw(n)
	last := first + t.Draw(n-first+1)
	var sm, sl mp4.SampleInterval
	var em, el error
	r.Guard("GetSampleInterval(mem)", func() { sm, em = a.GetSampleInterval(trex, uint32(first), uint32(last)) })
	r.Guard("GetSampleInterval(lazy)", func() { sl, el = b.GetSampleInterval(trex, uint32(first), uint32(last)) })
	r.Logf("op%d GetSampleInterval(segment %d fragment %d, samples %d..%d of %d) mem: off=%d size=%d err=%v lazy: off=%d size=%d err=%v", op, c.si, c.fi, first, last, n, sm.OffsetInMdat, sm.Size, em, sl.OffsetInMdat, sl.Size, el)
	r.Event("GetSampleInterval", btoi(el != nil))
	r.Probe("fragment-sample-interval")
	if (em == nil) != (el == nil) {
		r.Violate("c08-accept-differs", "GetSampleInterval(%d..%d) of segment %d fragment %d: in-memory says %q, lazy says %q", first, last, c.si, c.fi, errStr(em), errStr(el))
		return true
	}
	if em != nil {
		return true
	}
	if sm.OffsetInMdat != sl.OffsetInMdat || sm.Size != sl.Size || sm.FirstDecodeTime != sl.FirstDecodeTime || len(sm.Samples) != len(sl.Samples) {
		r.Violate("c08-interval", "GetSampleInterval(%d..%d) of segment %d fragment %d: in-memory offset/size/time/count %d/%d/%d/%d, lazy %d/%d/%d/%d", first, last, c.si, c.fi,
			sm.OffsetInMdat, sm.Size, sm.FirstDecodeTime, len(sm.Samples), sl.OffsetInMdat, sl.Size, sl.FirstDecodeTime, len(sl.Samples))
		return true
	}
	st, sz := int64(b.Mdat.PayloadAbsoluteOffset())+int64(sl.OffsetInMdat), int64(sl.Size)
	if st+sz > int64(len(img)) {
		r.Violate("c08-interval", "GetSampleInterval(%d..%d): the range [%d,%d) lies beyond the file (%d bytes)", first, last, st, st+sz, len(img))
		return true
	}
	if sl.OffsetInMdat > 0 {
		r.Probe("fragment-interval-not-at-payload-start")
	}
	if !bytes.Equal(sm.Data, img[st:st+sz]) {
		r.Violate("c08-mem-bytes", "GetSampleInterval(%d..%d) of segment %d fragment %d in memory returned %d bytes that are not the bytes [%d,%d) of the file which the lazy mode points to (first diff at %d)", first, last, c.si, c.fi, len(sm.Data), st, st+sz, firstDiff(sm.Data, img[st:st+sz]))
		return true
	}
	if sz > 0 {
		var got []byte
		var err error
		r.Guard("ReadData(lazy interval)", func() { got, err = b.Mdat.ReadData(st, sz, h) })
		c08CheckBytes(r, "ReadData", st, sz, disk, got, err, faulty, h, false)
	}
	return true
}

func c08CopySamples(r *sim.Run, op int, fm, fl *mp4.File, movie *ref.MovieInfo, img, disk []byte, h *sim.Handle, faulty, truncated bool) {
	t := r.T
	var cands []int
	for i, tr := range movie.Tracks {
		if len(tr.Samples) > 0 && i < len(fl.Moov.Traks) {
			cands = append(cands, i)
		}
	}
	if len(cands) == 0 {
		return
	}
	ti := cands[t.Draw(len(cands))]
	tr := movie.Tracks[ti]
	n := len(tr.Samples)
	var a, b int
	switch t.Draw(4) {
	case 0:
		a = 1 + t.Draw(n)
		b = a + t.Draw(n-a+1)
	case 1: // to the last sample
		a = 1 + t.Draw(n)
		b = n
	case 2:
		a, b = 1, n
	default:
		a = 1 + t.Draw(n)
		b = min(n, a+t.Draw(8))
	}
	ws := c08WorkSizes[t.Draw(len(c08WorkSizes))]
	var work []byte
	if ws > 0 {
		work = make([]byte, ws)
	}
	var truth []byte
	ok := true
	for i := a - 1; i < b; i++ {
		sb := tr.Samples[i].Bytes(disk)
		if sb == nil && tr.Samples[i].Size > 0 {
			ok = false
			break
		}
		truth = append(truth, sb...)
	}
	var lastEnd int64
	for i := a - 1; i < b; i++ {
		if e := tr.Samples[i].Offset + int64(tr.Samples[i].Size); e > lastEnd {
			lastEnd = e
		}
	}
	if lastEnd == int64(len(img)) {
		r.Probe("sample-range-ends-on-last-file-byte")
	}
	if ws > 0 && ws < len(truth) {
		r.Probe("workbuf-smaller-than-range")
	}
	sink := sim.NewSink(r)
	var err error
	r.Guard("CopySampleData(lazy)", func() {
		err = fl.CopySampleData(sink, h, fl.Moov.Traks[ti], uint32(a), uint32(b), work)
	})
	r.Logf("op%d CopySampleData(track#%d, %d..%d, work=%d) lazy -> %d bytes err=%v", op, ti, a, b, ws, len(sink.Buf), err)
	r.Event("CopySampleData", btoi(err != nil), ws)
	if err == nil {
		if !ok {
			r.Violate("c08-short-success", "CopySampleData(%d..%d) succeeded although the disk is truncated inside the range", a, b)
		} else if !bytes.Equal(sink.Buf, truth) {
			r.Violate("c08-lazy-bytes", "CopySampleData(track %d, %d..%d, work=%d) lazy wrote %d bytes, reference expansion has %d (first diff %d)", tr.ID, a, b, ws, len(sink.Buf), len(truth), firstDiff(sink.Buf, truth))
		}
	} else {
		if !faulty || !(h.Failed || !ok || sink.Failed) {
			r.Violate("c08-lazy-error", "CopySampleData(track %d, %d..%d, work=%d) failed in lazy mode without any injected fault: %v", tr.ID, a, b, ws, err)
		} else if len(sink.Buf) > len(truth) || !bytes.Equal(sink.Buf, truth[:len(sink.Buf)]) {
			if ok {
				r.Violate("c08-wrong-prefix", "CopySampleData failed (%v) after writing %d bytes that are not a prefix of the range", err, len(sink.Buf))
			}
		}
	}
	if !truncated {
		s2 := sim.NewSink(nil)
		var em error
		r.Guard("CopySampleData(mem)", func() {
			em = fm.CopySampleData(s2, nil, fm.Moov.Traks[ti], uint32(a), uint32(b), work)
		})
		if em != nil {
			r.Violate("c08-mem-error", "in-memory CopySampleData(%d..%d) failed: %v", a, b, em)
		} else if !bytes.Equal(s2.Buf, truth) {
			r.Violate("c08-mem-bytes", "in-memory CopySampleData(track %d, %d..%d) wrote %d bytes, reference has %d (first diff %d)", tr.ID, a, b, len(s2.Buf), len(truth), firstDiff(s2.Buf, truth))
		}
	}
}

func init() {
	sim.Register(&sim.Prop{
		ID:    "C08",
		Level: "exploration",
		Rule: "each run: one corpus file (or a byte-surgery layout variant: 64-bit mdat header, mdat before/after moov, mdat last, free pad) on a SimDisk handle with a seeded delivery " +
			"schedule (short/zero/chunk-capped reads, data+EOF) and, in the separate fault configuration, EIO at read k / seek error / truncated disk / failing sink; lazy decode, tree comparison, " +
			"then a seeded history of 1-8 operations (ReadData, CopyData, CopySampleData with work buffers {0,1,2,3,7,16,4096,1M}, lazy Encode+copy, GetTopBoxInfoList) on the shared handle. " +
			"non-trivial = at least one delivery fault fired inside an operation; distinct = distinct hash of the sequence of (file, op kind, outcome, delivered read sizes, fault kinds).",
		Assumptions: []string{"ground truth is the disk image bytes and an independent sample-table expansion (vsim/ref)", "only ranges inside the mdat payload with size>=1 are issued",
			"data+EOF, short and zero reads are legal io.Reader behaviour and are part of the exact configuration"},
		Real: realLib, Stub: stubIO, RealNoFault: realNoFault,
		Runs:       map[string]int{"quick": 150000, "thorough": 8000000},
		HangBudget: 60e9,
		Setup:      c08Setup,
		Run:        c08Run,
		WantFaults: []string{"read-short", "read-zero", "read-data+eof", "read-eio", "seek-eio", "disk-truncated", "write-eio", "write-full"},
		WantProbes: []string{"range-ends-on-last-payload-byte", "range-ends-on-last-file-byte", "sample-range-ends-on-last-file-byte", "workbuf-smaller-than-range", "mdat-largesize", "mdat-before-moov", "lazy-encode-roundtrip"},
	})
}
