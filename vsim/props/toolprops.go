//go:build go1.21

package props

import (
	"github.com/Eyevinn/mp4ff/internal/vsim/sim"
)

// C10 and C11 run inside in-package test binaries of the tools (cropMP4, the segmenter functions are
// unexported members of package main). Their metadata is registered here so that the coordinator
// (bin/vsim) knows them; the tool harness installs the Run function.

func init() {
	sim.Register(&sim.Prop{
		ID:           "C10",
		Level:        "exploration",
		Tool:         "crop",
		FatalNoClaim: true,
		Rule: "each run: a progressive input (corpus file, a byte-surgery layout variant of one, or a raw-muxer file with 1-3 tracks, seeded chunking/interleaving, stco/co64, ctts v0/v1/none, stss/sdtp/edts presence, mdat before/after moov, 32/64-bit mdat header) is put on a SimDisk, decoded lazily through a handle with a seeded delivery schedule and, in the fault configuration, EIO/seek error/truncated disk; " +
			"cropMP4(file, durationMS, sink, handle) is called with a seeded duration (1 ms .. beyond the end, biased to sample boundaries +-1 ms) and a sink that may fail (write k, device full). Iff it returns nil the output is read by the independent demuxer: each track must be exactly the first k samples (bytes, durations, composition offsets, sync flags, order) with k computed from the statement by exact integer cross-multiplication, chunk offsets inside the new mdat, mdat payload = exactly those bytes, header durations <= originals, and the library must decode it. " +
			"non-trivial = a delivery/storage/sink fault fired; distinct = hash of (input identity, layout, duration, delivered read sizes, outcome).",
		Assumptions: []string{"the statement is conditional on success: an error return imposes nothing", "if no sync sample of the reference track starts at or after the requested duration the statement defines no k and nothing is demanded",
			"run()/flag parsing/os.Open/os.Create are real and un-faulted (one smoke run per check)", "the tool's progress printing goes to a discarded stdout"},
		Real:        []string{"cmd/mp4ff-crop: cropMP4 and everything below it; mp4ff packages (compiled from /repo's working tree)"},
		Stub:        []string{"input file (SimDisk handle: delivery, EIO, seek error, truncation)", "output file (recording sink with write faults)", "virtual device time"},
		RealNoFault: append([]string{"run(): flag parsing, os.Open, os.Create (smoke run on a real scratch directory)"}, realNoFault...),
		Runs:        map[string]int{"quick": 300000, "thorough": 20000000},
		WantFaults:  []string{"read-short", "read-zero", "read-eio", "seek-eio", "disk-truncated", "write-eio", "write-full"},
		WantProbes:  []string{"crop-succeeded", "crop-failed", "crop-beyond-end", "muxer-file", "corpus-file", "layout-variant"},
	})
	sim.Register(&sim.Prop{
		ID:           "C11",
		Level:        "exploration",
		Tool:         "segmenter",
		FatalNoClaim: true,
		Rule: "each run: a progressive input with one video track (stss) and at most one audio track (corpus file or raw-muxer file with seeded chunking/interleaving/ctts/sdtp/co64/layout) is decoded eagerly or lazily through a SimDisk handle (seeded delivery; EIO/seek error/truncation in the lazy fault configuration) and pushed through the segmenter's own functions " +
			"(NewSegmenter, getSegmentStartsFromVideo, SetTargetSegmentation, then makeSingleTrackSegments / makeMultiTrackSegments / makeSingleTrackSegmentsLazyWrite with the handle as lazy source) with a seeded segment duration (1 ms .. beyond the end); the files it writes to a real scratch directory are read back and, per track, the concatenated init+segments must hold exactly the input's sample sequence " +
			"(count, bytes, duration, composition offset, decode time, sync flag, nothing missing at the end) according to the independent demuxer, and every media segment must start with a sync sample of the video track. non-trivial = a delivery/storage fault fired; distinct = hash of (input, segment duration, mode, decode mode, delivered read sizes, outcome).",
		Assumptions: []string{"tool error or panic => no claim (nothing was produced to compare)", "one output name exists per media type in single-track mode, so inputs have one video and at most one audio track",
			"output files go to a real scratch directory (no seam): un-faulted", "sample flags of a progressive file are compared as the sync flag only"},
		Real:        []string{"examples/segmenter: NewSegmenter, getSegmentStartsFromVideo, SetTargetSegmentation, make*Segments, copyMediaData, GetFullSamplesForInterval; mp4ff packages"},
		Stub:        []string{"input file (SimDisk handle: delivery, EIO, seek error, truncation)", "virtual device time"},
		RealNoFault: append([]string{"output files (real scratch directory via mp4.WriteToFile / os.Create)", "run(): flag parsing, os.Open (one smoke run)"}, realNoFault...),
		Runs:        map[string]int{"quick": 30000, "thorough": 1000000},
		WantFaults:  []string{"read-short", "read-zero", "read-eio", "seek-eio", "disk-truncated"},
		WantProbes:  []string{"segmenter-succeeded", "muxer-file", "corpus-file"},
	})
	sim.Register(&sim.Prop{
		ID:           "C11b",
		Level:        "exploration",
		Tool:         "resegmenter",
		FatalNoClaim: true,
		Rule: "sub-world of C11: a fragmented single-track stream (packager history with 1-4 segments x 1-3 fragments, foreign boxes; or corpus testV300.mp4 / bbb5s_aac_sidx.mp4) is decoded through a seeded delivery schedule and either passed to the resegmenter's Resegment() with a seeded chunk duration and re-encoded, or every MediaSegment is split with Fragmentify(seeded duration) and re-encoded; " +
			"the independent demuxer must read back the identical sample sequence (count, bytes, duration, flags, composition offset, decode time) and resegmented segments after the first must start with a sync sample.",
		Assumptions: []string{"Resegment error/panic => no claim"},
		Real:        []string{"examples/resegmenter: Resegment, addSamplesToFrag, addNewSegment; mp4.MediaSegment.Fragmentify; mp4ff packages"},
		Stub:        []string{"io.Reader delivery (SimDisk handle)", "virtual device time"},
		RealNoFault: realNoFault,
		Runs:        map[string]int{"quick": 100000, "thorough": 8000000},
		WantProbes:  []string{"resegment-checked", "fragmentify-checked"},
	})
	sim.Register(&sim.Prop{
		ID:           "C11c",
		Level:        "exploration",
		Tool:         "combine",
		FatalNoClaim: true,
		Rule: "sub-world of C11: 2-3 single-track productions (packager histories, one fragment per segment, explicit trun values so that nothing relies on trex defaults) are stored as init/segment files in a real scratch directory and combined with combine-segs' combineInitSegments / combineMediaSegments; " +
			"the independent demuxer must find every track's samples of every segment unchanged (count, bytes, duration, flags, composition offset, decode time) under the new track ids.",
		Assumptions: []string{"only inputs that do not rely on trex defaults (limitation documented in the tool's source)", "files are real (os.ReadFile has no seam): un-faulted", "combine error/panic => no claim"},
		Real:        []string{"examples/combine-segs: combineInitSegments, combineMediaSegments; mp4ff packages"},
		Stub:        []string{"producer histories (packager node)"},
		RealNoFault: append([]string{"scratch files read with os.ReadFile"}, realNoFault...),
		Runs:        map[string]int{"quick": 20000, "thorough": 500000},
		WantProbes:  []string{"combine-checked"},
	})
	sim.Register(&sim.Prop{
		ID:           "C06b",
		Level:        "exploration",
		Tool:         "encrypt",
		FatalNoClaim: true,
		Rule: "sub-world of C06: the clear production of the C06 world is pushed through mp4ff-encrypt's own encryptFile(ifh io.Reader, ofh io.Writer, ...) between a simulated input stream (seeded delivery; EIO at read k in the fault configuration) and a simulated sink (write k fails / device full): whole file in one call, or init first and then every media segment against the protected init (-init flow); " +
			"whenever it returns nil the output is decrypted with the library and must satisfy the C06 oracles against the clear encoding; nil after a failed read or write is a violation, an error without any injected fault too.",
		Assumptions: []string{"an error under an injected fault imposes nothing", "flag parsing / os files of run() are not exercised here"},
		Real:        []string{"cmd/mp4ff-encrypt: encryptFile; mp4ff packages"},
		Stub:        []string{"input stream (SimDisk handle behind io.Reader)", "output file (sink with write faults)", "virtual device time"},
		RealNoFault: realNoFault,
		Runs:        map[string]int{"quick": 60000, "thorough": 4000000},
		WantFaults:  []string{"read-eio", "write-eio", "write-full", "read-short"},
	})
	sim.Register(&sim.Prop{
		ID:           "C06c",
		Level:        "exploration",
		Tool:         "decrypt",
		FatalNoClaim: true,
		Rule: "sub-world of C06: the encrypted production of the C06 world is pushed through mp4ff-decrypt's own decryptFile(r, initR io.Reader, w io.Writer, key) between simulated input streams (media and separately delivered init; seeded delivery; EIO in the fault configuration) and a simulated sink (write faults): whole file, or media segments on their own in seeded order with repeats, each against the separately delivered init; " +
			"whenever it returns nil the output must satisfy the C06 oracles against the clear encoding; nil after a failed read or write is a violation, an error without any injected fault too.",
		Assumptions: []string{"an error under an injected fault imposes nothing", "the tool re-encodes in segment mode: top-level foreign boxes are outside the inventory"},
		Real:        []string{"cmd/mp4ff-decrypt: decryptFile; mp4ff packages"},
		Stub:        []string{"input streams (SimDisk handles behind io.Reader)", "output file (sink with write faults)", "segment fetch order / repeats", "virtual device time"},
		RealNoFault: realNoFault,
		Runs:        map[string]int{"quick": 60000, "thorough": 4000000},
		WantFaults:  []string{"read-eio", "write-eio", "write-full", "read-short", "segment-reordered"},
	})
	sim.Register(&sim.Prop{
		ID:    "C12b",
		Level: "exploration",
		Tool:  "addsidx",
		Rule: "sub-world of C12: the emitted stream of the C12 world (packager production assembled with one delimiter mode: styp, top-level sidx, hierarchical sidx, per-segment sidx, none, none + -startSegOnMoof; foreign top-level boxes between fragments) is stored in a real scratch file and pushed through examples/add-sidx's own run() with seeded -nzEPT / -removeEnc flags; " +
			"the tool must succeed, its output must keep ftyp+moov+emsg+moof+mdat bytes in order and satisfy the C12 index oracle (references located in the output bytes by the independent walker: contiguous, on each segment's first byte, ending at the end of the media, durations from the independent demuxer).",
		Assumptions: []string{"the tool never sets the ISM flag: no mfra mode", "input and output are real scratch files (os.Open/os.Create have no seam): un-faulted"},
		Real:        []string{"examples/add-sidx: run, removeEncryptionBoxes; mp4ff packages"},
		Stub:        []string{"producer history and stream assembly (packager node, raw delimiter boxes)"},
		RealNoFault: append([]string{"scratch files via os.Open / os.Create"}, realNoFault...),
		Runs:        map[string]int{"quick": 40000, "thorough": 4000000},
		WantProbes:  []string{"add-sidx-checked", "sidx-tiling-checked"},
	})
	sim.Register(&sim.Prop{
		ID:    "C08b",
		Level: "exploration",
		Tool:  "segmenter",
		Rule: "sub-world of C08 (anchor examples/segmenter/segment.go): the C11 segmenter world with lazy decode forced and no storage faults (seeded delivery schedules only): corpus or raw-muxer progressive input, seeded segment duration, single-track / multiplexed / lazy-write mode with the SimDisk handle as lazy source; " +
			"the written files must satisfy the per-track conservation oracle of the independent demuxer AND be byte-identical to the files the same functions write from the fully decoded file (lazy-write is compared with single-track mode).",
		Assumptions: []string{"output files go to a real scratch directory (no seam): un-faulted"},
		Real:        []string{"examples/segmenter: copyMediaData, GetFullSamplesForInterval, make*Segments; mp4.File.CopySampleData, MdatBox.CopyData/ReadData; mp4ff packages"},
		Stub:        []string{"input file (SimDisk handle: delivery schedules)", "virtual device time"},
		RealNoFault: append([]string{"output files (real scratch directory)"}, realNoFault...),
		Runs:        map[string]int{"quick": 15000, "thorough": 600000},
		WantFaults:  []string{"read-short", "read-zero"},
		WantProbes:  []string{"segmenter-lazy-vs-memory-compared"},
	})
	sim.Register(&sim.Prop{
		ID:    "C08c",
		Level: "exploration",
		Tool:  "crop",
		Rule: "sub-world of C08 (anchor cmd/mp4ff-crop/main.go): the C10 crop world without storage faults (seeded delivery schedules only; corpus files, layout variants incl. 64-bit mdat headers, raw-muxer files): cropMP4 on the lazily decoded file with the SimDisk handle as source; " +
			"the output must satisfy the C10 prefix oracle of the independent demuxer AND be byte-identical to the output of cropMP4 on the fully decoded file.",
		Assumptions: []string{"crop error/panic => no claim"},
		Real:        []string{"cmd/mp4ff-crop: cropMP4, writeMdat, updateChunkOffsets; mp4.MdatBox.CopyData; mp4ff packages"},
		Stub:        []string{"input file (SimDisk handle: delivery schedules)", "output sink", "virtual device time"},
		RealNoFault: realNoFault,
		Runs:        map[string]int{"quick": 100000, "thorough": 8000000},
		WantFaults:  []string{"read-short", "read-zero"},
		WantProbes:  []string{"crop-lazy-vs-memory-compared"},
	})
}
