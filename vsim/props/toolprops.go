//go:build go1.21

package props

import (
	"github.com/Eyevinn/mp4ff/internal/vsim/sim"
)

// C10 and C11 run inside in-package test binaries of the tools (cropMP4, the segmenter functions are
// unexported members of package main). Their metadata is registered here so that the coordinator
// (bin/vsim) knows them; the tool harness installs the Run function.

func init() {
	sim.Register(&sim.Prop{
		ID:    "C10",
		Level: "exploration",
		Tool:  "crop",
		Rule: "each run: a progressive input (corpus file, a byte-surgery layout variant of one, or a raw-muxer file with 1-3 tracks, seeded chunking/interleaving, stco/co64, ctts v0/v1/none, stss/sdtp/edts presence, mdat before/after moov, 32/64-bit mdat header) is put on a SimDisk, decoded lazily through a handle with a seeded delivery schedule and, in the fault configuration, EIO/seek error/truncated disk; " +
			"cropMP4(file, durationMS, sink, handle) is called with a seeded duration (1 ms .. beyond the end, biased to sample boundaries +-1 ms) and a sink that may fail (write k, device full). Iff it returns nil the output is read by the independent demuxer: each track must be exactly the first k samples (bytes, durations, composition offsets, sync flags, order) with k computed from the statement by exact integer cross-multiplication, chunk offsets inside the new mdat, mdat payload = exactly those bytes, header durations <= originals, and the library must decode it. " +
			"non-trivial = a delivery/storage/sink fault fired; distinct = hash of (input identity, layout, duration, delivered read sizes, outcome).",
		Assumptions: []string{"the statement is conditional on success: an error return imposes nothing", "if no sync sample of the reference track starts at or after the requested duration the statement defines no k and nothing is demanded",
			"run()/flag parsing/os.Open/os.Create are real and un-faulted (one smoke run per check)", "the tool's progress printing goes to a discarded stdout"},
		Real:        []string{"cmd/mp4ff-crop: cropMP4 and everything below it; mp4ff packages (compiled from /repo's working tree)"},
		Stub:        []string{"input file (SimDisk handle: delivery, EIO, seek error, truncation)", "output file (recording sink with write faults)", "virtual device time"},
		RealNoFault: append([]string{"run(): flag parsing, os.Open, os.Create (smoke run on a real scratch directory)"}, realNoFault...),
		Runs:        map[string]int{"quick": 20000, "thorough": 1500000},
		WantFaults:  []string{"read-short", "read-zero", "read-eio", "seek-eio", "disk-truncated", "write-eio", "write-full"},
		WantProbes:  []string{"crop-succeeded", "crop-failed", "crop-beyond-end", "muxer-file", "corpus-file", "layout-variant"},
	})
}
