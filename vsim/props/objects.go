//go:build go1.21

package props

import (
	"fmt"
	"io"
	"reflect"
	"strings"

	"github.com/Eyevinn/mp4ff/bits"
	"github.com/Eyevinn/mp4ff/internal/vsim/sim"
	"github.com/Eyevinn/mp4ff/internal/vsim/work"
	"github.com/Eyevinn/mp4ff/mp4"
)

// encodable is anything with the four operations C02/C03 talk about.
type encodable interface {
	Encode(w io.Writer) error
	EncodeSW(sw bits.SliceWriter) error
	Size() uint64
	Info(w io.Writer, specificBoxLevels, indent, indentStep string) error
}

type node struct {
	desc   string
	obj    encodable
	boxSeq bool // its encoding is a sequence of complete boxes (size-field walk applies)
	depth  int
}

var boxSliceType = reflect.TypeOf([]mp4.Box(nil))

// childrenOf finds child boxes via GetChildren() or an exported Children []Box field.
func childrenOf(b mp4.Box) []mp4.Box {
	if c, ok := b.(interface{ GetChildren() []mp4.Box }); ok {
		return c.GetChildren()
	}
	v := reflect.ValueOf(b)
	if v.Kind() == reflect.Ptr && !v.IsNil() {
		v = v.Elem()
	}
	if v.Kind() != reflect.Struct {
		return nil
	}
	f := v.FieldByName("Children")
	if f.IsValid() && f.Type() == boxSliceType {
		return f.Interface().([]mp4.Box)
	}
	return nil
}

func collectBoxes(prefix string, bs []mp4.Box, depth int, out *[]node) {
	for i, b := range bs {
		if b == nil || (reflect.ValueOf(b).Kind() == reflect.Ptr && reflect.ValueOf(b).IsNil()) {
			continue
		}
		d := fmt.Sprintf("%s/%s[%d]", prefix, b.Type(), i)
		*out = append(*out, node{desc: d, obj: b, boxSeq: true, depth: depth})
		if depth < 10 {
			collectBoxes(d, childrenOf(b), depth+1, out)
		}
	}
}

// collectNodes lists every encodable node reachable from a decoded/built file.
func collectNodes(name string, f *mp4.File) []node {
	out := []node{{desc: name + ":File", obj: f, boxSeq: true}}
	if f.Init != nil {
		out = append(out, node{desc: name + ":Init", obj: f.Init, boxSeq: true})
	}
	for si, s := range f.Segments {
		out = append(out, node{desc: fmt.Sprintf("%s:Segment[%d]", name, si), obj: s, boxSeq: true})
		for fi, fr := range s.Fragments {
			if fr.Moof != nil && fr.Mdat != nil {
				out = append(out, node{desc: fmt.Sprintf("%s:Segment[%d].Fragment[%d]", name, si, fi), obj: fr, boxSeq: true})
			}
		}
	}
	collectBoxes(name, f.Children, 1, &out)
	return out
}

// objSource draws an object universe for a run: a freshly decoded corpus file (either decode path,
// either fragmented encode mode, optimisation on/off) or a packager production.
type objSource struct {
	desc     string
	nodes    []node
	bytes    []byte // the byte string it was decoded from (nil for built objects)
	file     *mp4.File
	optimize bool
	built    bool
}

var objCorpus []*work.CorpusFile

func setupObjects() error {
	if err := work.SetupPackager(); err != nil {
		return err
	}
	if err := c06Setup(); err != nil {
		return err
	}
	c, _ := work.LoadCorpus()
	for _, cf := range c {
		ok := false
		func() {
			defer func() { recover() }()
			if _, err := decodeMem(cf.Data); err == nil {
				ok = true
			}
		}()
		if ok {
			objCorpus = append(objCorpus, cf)
		}
	}
	if len(objCorpus) < 10 {
		return fmt.Errorf("objects: only %d decodable corpus files", len(objCorpus))
	}
	return nil
}

func drawSource(r *sim.Run) *objSource {
	t := r.T
	if t.Chance(300) {
		var p *work.Production
		var err error
		r.Guard("packager", func() {
			p, err = work.Package(r, work.PackOpts{MaxTracks: 3, MaxSegs: 2, MaxFrags: 2, MaxSamples: 5, Foreign: true, NoMeta: true, MixIntervalFull: true})
		})
		if err != nil {
			r.Violate("packager-error", "a documented-valid API history failed: %v", err)
		}
		src := &objSource{desc: "packager", built: true}
		src.nodes = append(src.nodes, node{desc: "built:Init", obj: p.Init, boxSeq: true})
		collectBoxes("built:Init", p.Init.Children, 1, &src.nodes)
		for si, s := range p.Segs {
			src.nodes = append(src.nodes, node{desc: fmt.Sprintf("built:Segment[%d]", si), obj: s.Seg, boxSeq: true})
			for fi, fr := range s.Objs {
				src.nodes = append(src.nodes, node{desc: fmt.Sprintf("built:Segment[%d].Fragment[%d](%s)", si, fi, s.Frags[fi].Mode), obj: fr, boxSeq: true})
				collectBoxes(fmt.Sprintf("built:Segment[%d].Fragment[%d]", si, fi), fr.Children, 1, &src.nodes)
			}
		}
		r.Event("src-built")
		return src
	}
	if t.Chance(150) {
		if src := drawBuiltSource(r); src != nil {
			return src
		}
	}
	if t.Chance(80) {
		var src *objSource
		r.Guard("constructors", func() { src = drawConstructedSource(r) })
		if src != nil {
			return src
		}
	}
	cf := objCorpus[t.Draw(len(objCorpus))]
	data := cf.Data
	name := cf.Name
	if t.Chance(300) {
		// a well-formed but unusual layout of the same file: unit transport with repaired sizes
		if units, err := work.ParseUnits(data); err == nil {
			ops := work.Transport(r, &units, 1+t.Draw(2), t.Chance(400), []string{"dup", "splice", "swap", "move", "largesize", "drop", "version"})
			nd := work.Serialize(units, true)
			okDec := false
			func() {
				defer func() { recover() }()
				if _, err := decodeMem(nd); err == nil {
					okDec = true
				}
			}()
			if okDec {
				data = nd
				name = fmt.Sprintf("%s+transport%v", cf.Name, ops)
				r.Probe("object-source-transported")
			}
		}
	}
	viaSR := t.Bool()
	boxTree := t.Bool()
	opt := t.Chance(300)
	var opts []mp4.Option
	if boxTree {
		opts = append(opts, mp4.WithEncodeMode(mp4.EncModeBoxTree))
	}
	var f *mp4.File
	var err error
	if viaSR {
		r.Guard("DecodeFileSR", func() { f, err = mp4.DecodeFileSR(bits.NewFixedSliceReader(data), opts...) })
	} else {
		r.Guard("DecodeFile", func() { f, err = decodeMem(data, opts...) })
	}
	if err != nil {
		// the two paths disagree on acceptance: C03's business; here just take the other one
		r.Guard("DecodeFile", func() { f, err = decodeMem(data, opts...) })
		if err != nil {
			panic(sim.HarnessAbort{Msg: "corpus file stopped decoding: " + cf.Name + ": " + err.Error()})
		}
	}
	if opt {
		f.EncOptimize = mp4.OptimizeTrun
		for _, s := range f.Segments {
			s.EncOptimize = mp4.OptimizeTrun
			for _, fr := range s.Fragments {
				fr.EncOptimize = mp4.OptimizeTrun
			}
		}
	}
	src := &objSource{desc: fmt.Sprintf("%s(viaSR=%v boxTree=%v optimize=%v)", name, viaSR, boxTree, opt), bytes: data, file: f, optimize: opt}
	src.nodes = collectNodes(cf.Name, f)
	r.Event("src-corpus", int(sim.HashString(name)&0xffff), btoi(viaSR), btoi(boxTree), btoi(opt))
	return src
}

// drawBuiltSource: objects built through other public constructors than the packager's: an init segment from a
// seeded AddEmptyTrack/Set*Descriptor history (all seven descriptor kinds), or an encrypted production
// (sinf/schm/tenc in the init; senc/saiz/saio in the fragments) decoded from its encoding.
func drawBuiltSource(r *sim.Run) *objSource {
	t := r.T
	if t.Bool() {
		var init *mp4.InitSegment
		var err error
		r.Guard("init history", func() { init, _, err = c19Build(r) })
		if err != nil || init == nil {
			return nil
		}
		src := &objSource{desc: "built-init(all descriptor kinds)", built: true}
		src.nodes = append(src.nodes, node{desc: "c19:Init", obj: init, boxSeq: true})
		collectBoxes("c19:Init", init.Children, 1, &src.nodes)
		r.Probe("object-source-init-history")
		return src
	}
	if len(c06Sources) == 0 {
		return nil
	}
	rnd := t.Sub()
	key := make([]byte, 16)
	rnd.Fill(key)
	scheme := []string{"cenc", "cbcs"}[t.Draw(2)]
	var p *C06Prod
	var err error
	r.Guard("producer+encryptor", func() { p, err = c06Produce(r, scheme, key, randIV(t, rnd)) })
	if err != nil || p == nil {
		return nil
	}
	stream := append([]byte(nil), p.EncInit...)
	noInit := t.Chance(400)
	if noInit {
		// media segments on their own: the decoder does not know the IV size and has to infer it (senc vs saiz)
		stream = nil
		r.Probe("object-source-encrypted-without-init")
	}
	for _, s := range p.EncSegs {
		stream = append(stream, s...)
	}
	var f *mp4.File
	r.Guard("DecodeFile(encrypted)", func() { f, err = decodeMem(stream) })
	if err != nil || f == nil {
		return nil
	}
	src := &objSource{desc: fmt.Sprintf("encrypted-production(%s, with init=%v)", scheme, !noInit), bytes: stream, file: f}
	src.nodes = collectNodes("enc", f)
	r.Probe("object-source-encrypted")
	return src
}

var flagPoolObj = []uint32{mp4.SyncSampleFlags, mp4.NonSyncSampleFlags, 0, 0x02010000, 0x01010000}

// drawConstructedSource: single boxes made through the public constructors with seeded arguments around the
// boundaries of their length and count fields (descriptor payloads around 127/128 bytes, strings, KID lists, ...).
func drawConstructedSource(r *sim.Run) *objSource {
	t := r.T
	rnd := t.Sub()
	fill := func(n int) []byte {
		b := make([]byte, n)
		rnd.Fill(b)
		return b
	}
	lens := []int{0, 1, 2, 5, 64, 100, 104, 105, 106, 120, 126, 127, 128, 129, 200, 255, 256, 300, 1000}
	var b mp4.Box
	var err error
	name := ""
	switch t.Draw(19) {
	case 18:
		// data reference boxes: a dref with 1-3 url entries of seeded kinds (self-contained without location, a location
		// with or without its terminating zero, a location that is present but empty), or a single url box
		mk := func() *mp4.URLBox {
			switch t.Draw(4) {
			case 0:
				return mp4.CreateURLBox()
			case 1:
				return &mp4.URLBox{Location: "http://example.com/media" + strings.Repeat("/a", t.Draw(4)) + ".mp4"}
			case 2:
				return &mp4.URLBox{Location: "file:x", NoZeroTermination: true}
			default:
				return &mp4.URLBox{Flags: uint32(t.Draw(2)), Location: ""} // present, empty: a lone terminating zero
			}
		}
		if t.Bool() {
			u := mk()
			b, name = u, fmt.Sprintf("URLBox{flags %d location %q noLocation=%v}", u.Flags, u.Location, u.NoLocation)
		} else {
			d := &mp4.DrefBox{}
			for i := 1 + t.Draw(3); i > 0; i-- {
				d.AddChild(mk())
			}
			b, name = d, fmt.Sprintf("DrefBox{%d url entries}", d.EntryCount)
		}
	case 17:
		// a movie fragment box put together from constructed children: 1-2 track fragments, tfhd with explicit
		// base_data_offset or default-base-is-moof, 1-2 runs each, data offsets on either side of the base (the field is
		// signed: media data may precede the position the base points to)
		moof := &mp4.MoofBox{}
		_ = moof.AddChild(mp4.CreateMfhd(uint32(1 + t.Draw(1000))))
		nTraf := 1 + t.Draw(2)
		for ti := 0; ti < nTraf; ti++ {
			traf := &mp4.TrafBox{}
			tfhd := mp4.CreateTfhd(uint32(ti + 1))
			if t.Bool() {
				tfhd.Flags = 0x000001
				tfhd.BaseDataOffset = uint64(2000 + t.Draw(100000))
			}
			_ = traf.AddChild(tfhd)
			_ = traf.AddChild(mp4.CreateTfdt(uint64(t.Draw(1 << 20))))
			for k := 1 + t.Draw(2); k > 0; k-- {
				tr := mp4.CreateTrun(0)
				for i := 1 + t.Draw(3); i > 0; i-- {
					tr.AddSample(mp4.NewSample(flagPoolObj[t.Draw(len(flagPoolObj))], uint32(t.Draw(5000)), uint32(t.Draw(500)), int32(t.Draw(3000))-1000))
				}
				tr.DataOffset = int32(t.Draw(3000)) - 1000
				_ = traf.AddChild(tr)
			}
			_ = moof.AddChild(traf)
		}
		b, name = moof, fmt.Sprintf("MoofBox{%d trafs, first tfhd flags %#x, first data_offset %d}", nTraf, moof.Traf.Tfhd.Flags, moof.Traf.Trun.DataOffset)
	case 16:
		// track encryption boxes over versions, protection flag, per-sample IV sizes and constant IVs
		kid := mp4.UUID(fill(16))
		tb := &mp4.TencBox{Version: byte(t.Draw(2)), DefaultIsProtected: byte(t.Draw(2)), DefaultPerSampleIVSize: []byte{0, 8, 16}[t.Draw(3)], DefaultKID: kid}
		if tb.Version == 1 {
			tb.DefaultCryptByteBlock, tb.DefaultSkipByteBlock = byte(t.Draw(10)), byte(t.Draw(10))
		}
		if tb.DefaultPerSampleIVSize == 0 && t.Chance(700) {
			tb.DefaultConstantIV = fill([]int{8, 16}[t.Draw(2)])
		}
		b, name = tb, fmt.Sprintf("TencBox{v%d protected=%d ivSize=%d constIV=%d}", tb.Version, tb.DefaultIsProtected, tb.DefaultPerSampleIVSize, len(tb.DefaultConstantIV))
	case 15:
		// a track run built through its own methods: default creation flags, 0-4 samples, optionally first-sample flags
		// on top of per-sample flags, seeded data offset
		tr := mp4.CreateTrun(uint32(t.Draw(3)))
		for i := t.Draw(5); i > 0; i-- {
			tr.AddSample(mp4.NewSample(flagPoolObj[t.Draw(len(flagPoolObj))], uint32(t.Draw(5000)), uint32(t.Draw(5000)), int32(t.Draw(3000))-1000))
		}
		if t.Bool() {
			tr.SetFirstSampleFlags(flagPoolObj[t.Draw(len(flagPoolObj))])
		}
		tr.DataOffset = int32(8 + t.Draw(4000))
		b, name = tr, fmt.Sprintf("CreateTrun(%d samples, flags %#x)", len(tr.Samples), tr.Flags)
	case 14:
		// a media data box filled through its own methods in a seeded order (data parts are only added while there is
		// no monolithic data: the opposite order is refused by the library)
		m := &mp4.MdatBox{}
		var hist []string
		for i := 1 + t.Draw(4); i > 0; i-- {
			n := lens[t.Draw(8)]
			switch k := t.Draw(3); {
			case k == 0 && len(m.Data) == 0:
				m.AddSampleDataPart(fill(n))
				hist = append(hist, fmt.Sprintf("AddSampleDataPart(%d)", n))
			case k == 1:
				m.SetData(fill(n))
				hist = append(hist, fmt.Sprintf("SetData(%d)", n))
			default:
				m.AddSampleData(fill(n))
				hist = append(hist, fmt.Sprintf("AddSampleData(%d)", n))
			}
		}
		b, name = m, "MdatBox{"+strings.Join(hist, " ")+"}"
	case 0:
		n := lens[t.Draw(len(lens))]
		b, name = mp4.CreateEsdsBox(fill(n)), fmt.Sprintf("CreateEsdsBox(%d-byte config)", n)
	case 1:
		n := lens[t.Draw(len(lens))]
		b, name = mp4.CreateAudioSampleEntryBox("mp4a", uint16(1+t.Draw(8)), 16, uint16(8000+t.Draw(40000)), mp4.CreateEsdsBox(fill(n))), fmt.Sprintf("CreateAudioSampleEntryBox(mp4a, esds %d)", n)
	case 2:
		lang := c19Langs[t.Draw(len(c19Langs))]
		b, name = mp4.CreateElng(lang), "CreateElng("+lang+")"
	case 3:
		var kids []string
		for i := t.Draw(4); i > 0; i-- {
			kids = append(kids, fmt.Sprintf("%032x", rnd.U64()))
		}
		n := lens[t.Draw(len(lens))]
		b, err = mp4.NewPsshBox("edef8ba979d64acea3c827dcd51d21ed", kids, fill(n))
		name = fmt.Sprintf("NewPsshBox(%d KIDs, %d data bytes)", len(kids), n)
	case 4:
		b, name = mp4.CreatePrftBox(byte(t.Draw(2)), uint32(t.Draw(32)), uint32(1+t.Draw(3)), mp4.NTP64(rnd.U64()), rnd.U64()>>uint(t.Draw(64))), "CreatePrftBox"
	case 5:
		strs := []string{"", "a", "http://www.w3.org/ns/ttml", "urn:x a b", string(fill(1 + t.Draw(40)))}
		b, name = mp4.NewStppBox(strs[t.Draw(5)], strs[t.Draw(5)], strs[t.Draw(5)]), "NewStppBox"
	case 6:
		var es []mp4.SdtpEntry
		for i := t.Draw(6); i > 0; i-- {
			es = append(es, mp4.NewSdtpEntry(uint8(t.Draw(4)), uint8(t.Draw(4)), uint8(t.Draw(4)), uint8(t.Draw(4))))
		}
		b, name = mp4.CreateSdtpBox(es), fmt.Sprintf("CreateSdtpBox(%d)", len(es))
	case 7:
		var cb []string
		for i := t.Draw(6); i > 0; i-- {
			cb = append(cb, []string{"iso6", "cmfc", "dash", "mp41"}[t.Draw(4)])
		}
		if t.Bool() {
			b, name = mp4.NewFtyp("iso6", uint32(t.Draw(3)), cb), fmt.Sprintf("NewFtyp(%d brands)", len(cb))
		} else {
			b, name = mp4.NewStyp("msdh", uint32(t.Draw(3)), cb), fmt.Sprintf("NewStyp(%d brands)", len(cb))
		}
	case 8:
		sps := append([]byte(nil), c19AvcSPS...)
		sps[1] = []byte{100, 100, 110, 122, 244, 44, 83, 86, 118, 128, 139, 134, 135}[t.Draw(13)]
		var spss, ppss [][]byte
		for i := 1 + t.Draw(2); i > 0; i-- {
			spss = append(spss, sps)
		}
		for i := t.Draw(3); i > 0; i-- {
			ppss = append(ppss, c19AvcPPS)
		}
		var a *mp4.AvcCBox
		a, err = mp4.CreateAvcC(spss, ppss, t.Bool())
		if err == nil {
			if t.Bool() {
				b = mp4.CreateVisualSampleEntryBox("avc1", 1280, 720, a)
			} else {
				b = a
			}
		}
		name = fmt.Sprintf("CreateAvcC(profile %d, %d SPS, %d PPS)", sps[1], len(spss), len(ppss))
	case 9:
		var h *mp4.HvcCBox
		vps, pps := [][]byte{c19HevcVPS}, [][]byte{c19HevcPPS}
		if t.Chance(300) {
			vps = nil // a configuration record without VPS: its array is present but empty
		}
		if t.Chance(200) {
			pps = nil
		}
		h, err = mp4.CreateHvcC(vps, [][]byte{c19HevcSPS}, pps, t.Bool(), t.Bool(), t.Bool(), t.Bool())
		if err == nil {
			b = h
		}
		name = "CreateHvcC"
	case 10:
		var hd *mp4.HdlrBox
		hd, err = mp4.CreateHdlr([]string{"video", "audio", "subtitle", "text", "meta", "mdir", "clcp"}[t.Draw(7)])
		if err == nil {
			if t.Bool() {
				b = mp4.CreateMetaBox(byte(t.Draw(2)), hd)
			} else {
				b = hd
			}
		}
		name = "CreateHdlr/CreateMetaBox"
	case 11:
		if t.Bool() {
			b, name = mp4.NewTfxdBox(rnd.U64()>>uint(t.Draw(64)), rnd.U64()>>uint(t.Draw(64))), "NewTfxdBox"
		} else {
			n := t.Draw(4)
			ts, ds := make([]uint64, n), make([]uint64, n)
			for i := range ts {
				ts[i], ds[i] = rnd.U64()>>uint(t.Draw(64)), rnd.U64()>>uint(t.Draw(64))
			}
			b, name = mp4.NewTfrfBox(byte(n), ts, ds), fmt.Sprintf("NewTfrfBox(%d)", n)
		}
	case 12:
		n := lens[t.Draw(len(lens))]
		nm := []string{"zzzz", "abcd", "free", "x y "}[t.Draw(4)]
		b, name = mp4.CreateUnknownBox(nm, uint64(8+n), fill(n)), fmt.Sprintf("CreateUnknownBox(%s, %d)", nm, n)
	default:
		if t.Bool() {
			b, name = mp4.CreateCoLLBox(uint16(t.Draw(65536)), uint16(t.Draw(65536))), "CreateCoLLBox"
		} else {
			n := lens[t.Draw(len(lens))]
			b, name = mp4.NewFreeBox(fill(n)), fmt.Sprintf("NewFreeBox(%d)", n)
		}
	}
	if err != nil || b == nil {
		r.Logf("constructor %s refused its arguments: %v", name, err)
		return nil
	}
	src := &objSource{desc: "constructed:" + name, built: true}
	src.nodes = append(src.nodes, node{desc: "constructed:" + name, obj: b, boxSeq: true})
	collectBoxes("constructed:"+name, childrenOf(b), 1, &src.nodes)
	r.Event("src-constructed", int(sim.HashString(name)&0xffff))
	r.Probe("object-source-constructed")
	return src
}
