//go:build go1.21

// Package props holds one simulated world per claimed property.
package props

import (
	"bytes"
	"fmt"
	"strings"
	"time"

	"github.com/Eyevinn/mp4ff/internal/vsim/sim"
	"github.com/Eyevinn/mp4ff/internal/vsim/work"
	"github.com/Eyevinn/mp4ff/mp4"
)

var realLib = []string{"mp4ff packages mp4, bits, avc, hevc, sei, aac (compiled from /repo's working tree)"}
var stubIO = []string{"io.Reader/io.ReadSeeker (SimDisk handle)", "io.Writer (recording sink with write faults)", "bits.SliceWriter capacity", "virtual device time"}
var realNoFault = []string{"Go allocator and GC", "wall clock (hang watchdog only)"}

func setupCorpus() error {
	_, err := work.LoadCorpus()
	return err
}

// infoDump renders Info output.
func infoDump(b mp4.Informer, level string) (string, error) {
	var buf bytes.Buffer
	err := b.Info(&buf, level, "", "  ")
	return buf.String(), err
}

func decodeMem(data []byte, opts ...mp4.Option) (*mp4.File, error) {
	return mp4.DecodeFile(bytes.NewReader(data), opts...)
}

func firstDiff(a, b []byte) int {
	n := len(a)
	if len(b) < n {
		n = len(b)
	}
	for i := 0; i < n; i++ {
		if a[i] != b[i] {
			return i
		}
	}
	if len(a) != len(b) {
		return n
	}
	return -1
}

func firstDiffLine(a, b string) string {
	la, lb := strings.Split(a, "\n"), strings.Split(b, "\n")
	for i := 0; i < len(la) && i < len(lb); i++ {
		if la[i] != lb[i] {
			return fmt.Sprintf("line %d: %q vs %q", i+1, la[i], lb[i])
		}
	}
	return fmt.Sprintf("line counts %d vs %d", len(la), len(lb))
}

func errStr(err error) string {
	if err == nil {
		return "nil"
	}
	return err.Error()
}

func minutes(n int) time.Duration { return time.Duration(n) * time.Minute }

var _ = sim.Mix
