//go:build go1.21

package props

import (
	"bytes"
	"encoding/binary"
	"fmt"

	"github.com/Eyevinn/mp4ff/bits"
	"github.com/Eyevinn/mp4ff/internal/vsim/ref"
	"github.com/Eyevinn/mp4ff/internal/vsim/sim"
	"github.com/Eyevinn/mp4ff/internal/vsim/work"
	"github.com/Eyevinn/mp4ff/mp4"
)

// C12 — fragments are grouped into segments faithfully and indexes tile the media.
// The decoder's grouping is a state machine over a stream of units and its positions come from
// stream accounting; the ISM path seeks on the disk. The producer's emission log is ground truth.

var c12Modes = []string{"styp", "sidx", "mfra", "none", "start-on-moof", "multi-sidx", "interleaved-sidx"}

// unit of the emitted stream as the independent walker sees it
type c12Frag struct {
	seq        uint32
	start, end int64 // first emsg (or moof) .. end of mdat
	moofStart  int64
	bytes      []byte
}

func mfhdSeq(data []byte, moof *ref.Box) uint32 {
	for _, c := range moof.Children {
		if c.Type == "mfhd" && c.Payload()+8 <= c.End() {
			return binary.BigEndian.Uint32(data[c.Payload()+4:])
		}
	}
	return 0
}

// c12Frags lists the fragments (emsg* moof mdat) of a stream in order.
func c12Frags(data []byte, top []*ref.Box) []c12Frag {
	var out []c12Frag
	var pendStart int64 = -1
	var pend []byte
	var cur *c12Frag
	for _, b := range top {
		switch b.Type {
		case "emsg":
			if pendStart < 0 {
				pendStart = b.Start
			}
			pend = append(pend, data[b.Start:b.End()]...)
		case "moof":
			f := c12Frag{seq: mfhdSeq(data, b), start: b.Start, moofStart: b.Start}
			if pendStart >= 0 {
				f.start = pendStart
			}
			f.bytes = append(append([]byte(nil), pend...), data[b.Start:b.End()]...)
			pendStart, pend = -1, nil
			out = append(out, f)
			cur = &out[len(out)-1]
		case "mdat":
			if cur != nil {
				cur.bytes = append(cur.bytes, data[b.Start:b.End()]...)
				cur.end = b.End()
				cur = nil
			}
		}
	}
	return out
}

// filtered concatenation of the boxes segment-mode encoding is expected to keep
func C12Kept(data []byte, top []*ref.Box, types map[string]bool) []byte {
	var out []byte
	for _, b := range top {
		if types[b.Type] {
			out = append(out, data[b.Start:b.End()]...)
		}
	}
	return out
}

var c12Corpus []*work.CorpusFile

func C12Setup() error {
	if err := work.SetupPackager(); err != nil {
		return err
	}
	c, _ := work.LoadCorpus()
	for _, cf := range c {
		if !cf.HasMoov || !cf.HasMoof || len(cf.Data) > 300<<10 {
			continue
		}
		ok := false
		func() {
			defer func() { recover() }()
			f, err := decodeMem(cf.Data)
			ok = err == nil && f.Init != nil && len(f.Segments) > 0
		}()
		if ok {
			c12Corpus = append(c12Corpus, cf)
		}
	}
	if len(c12Corpus) < 3 {
		return fmt.Errorf("c12: only %d fragmented corpus files with init", len(c12Corpus))
	}
	return nil
}

// c12CorpusRun: real fragmented files. Ground truth grouping comes from the independent walk: styp boxes if there
// are any, else the media references of the top-level sidx box(es), else one segment.
func c12CorpusRun(r *sim.Run) {
	t := r.T
	cf := c12Corpus[t.Draw(len(c12Corpus))]
	stream := cf.Data
	d, err := ref.DemuxStream(stream, nil)
	if err != nil || d.Movie == nil {
		panic(sim.HarnessAbort{Msg: "corpus file not demuxable: " + cf.Name})
	}
	frs := c12Frags(stream, d.Top)
	if len(frs) == 0 {
		return
	}
	var groups [][]uint32
	mode := "corpus:single"
	hasStyp := false
	for _, b := range d.Top {
		if b.Type == "styp" {
			hasStyp = true
		}
	}
	switch {
	case hasStyp:
		mode = "corpus:styp"
		fi := 0
		var cur []uint32
		started := false
		for _, b := range d.Top {
			switch b.Type {
			case "styp":
				if started && len(cur) > 0 {
					groups = append(groups, cur)
					cur = nil
				}
				if started && len(cur) == 0 && len(groups) > 0 {
					// a styp directly after a styp opens an (empty) segment in the library too: such files are not in the corpus
				}
				started = true
			case "moof":
				if fi < len(frs) {
					cur = append(cur, frs[fi].seq)
					fi++
				}
				started = true
			}
		}
		if len(cur) > 0 {
			groups = append(groups, cur)
		}
	default:
		// every top-level sidx box delimits (in front of the media, or interleaved with it)
		type refSpan struct{ start, end int64 }
		var spans []refSpan
		seenMoof, interleaved := false, false
		for _, b := range d.Top {
			if b.Type == "moof" {
				seenMoof = true
			}
			if b.Type != "sidx" {
				continue
			}
			if seenMoof {
				interleaved = true
			}
			pl := stream[b.Payload():b.End()]
			if len(pl) < 24 {
				continue
			}
			pos := 12
			var fo uint64
			if pl[0] == 0 {
				fo = uint64(binary.BigEndian.Uint32(pl[pos+4:]))
				pos += 8
			} else {
				fo = binary.BigEndian.Uint64(pl[pos+8:])
				pos += 16
			}
			cnt := int(binary.BigEndian.Uint16(pl[pos+2:]))
			pos += 4
			at := b.End() + int64(fo)
			for i := 0; i < cnt && pos+12 <= len(pl); i++ {
				w := binary.BigEndian.Uint32(pl[pos:])
				sz := int64(w & 0x7fffffff)
				if w>>31 == 0 {
					spans = append(spans, refSpan{at, at + sz})
				}
				at += sz
				pos += 12
			}
		}
		if len(spans) > 0 {
			mode = "corpus:sidx"
			if interleaved {
				mode = "corpus:interleaved-sidx"
			}
			groups = make([][]uint32, len(spans))
			for _, fr := range frs {
				for si, sp := range spans {
					if fr.moofStart >= sp.start && fr.moofStart < sp.end {
						groups[si] = append(groups[si], fr.seq)
					}
				}
			}
			var ne [][]uint32
			for _, g := range groups {
				if len(g) > 0 {
					ne = append(ne, g)
				}
			}
			groups = ne
		} else {
			var all []uint32
			for _, fr := range frs {
				all = append(all, fr.seq)
			}
			groups = [][]uint32{all}
		}
	}
	refID := uint32(0)
	for _, h := range []string{"vide", "soun"} {
		for _, tr := range d.Movie.Tracks {
			if refID == 0 && tr.Handler == h {
				refID = tr.ID
			}
		}
	}
	if refID == 0 {
		refID = d.Movie.Tracks[0].ID
	}
	r.Probe(mode)
	r.NonTriv = true
	r.Event("corpus", int(sim.HashString(cf.Name)&0xffff))
	r.Logf("corpus file %s mode=%s: %d fragments, expected grouping %v, reference track %d", cf.Name, mode, len(frs), groups, refID)
	cfg := sim.DrawDelivery(t)
	viaSR := t.Bool()
	var f *mp4.File
	f, err = decodeWith(r, cf.Name, stream, viaSR, cfg)
	if err != nil {
		r.Violate("c12-decode", "decoding corpus file %s failed: %v", cf.Name, err)
		return
	}
	var got [][]uint32
	for si, sg := range f.Segments {
		var g []uint32
		for fi, fr := range sg.Fragments {
			if fr.Moof == nil || fr.Mdat == nil || fr.Moof.Mfhd == nil {
				r.Violate("c12-fragment-incomplete", "%s: segment %d fragment %d has moof=%v mdat=%v", cf.Name, si, fi, fr.Moof != nil, fr.Mdat != nil)
				continue
			}
			g = append(g, fr.Moof.Mfhd.SequenceNumber)
		}
		got = append(got, g)
	}
	if fmt.Sprint(got) != fmt.Sprint(groups) {
		cls := "c12-grouping"
		if mode == "corpus:interleaved-sidx" {
			cls = "c12-grouping:interleaved-sidx-without-styp"
		}
		r.Violate(cls, "%s (%s): decoded grouping %v, the delimiters in the file give %v", cf.Name, mode, got, groups)
		return
	}
	// third-party init boxes may carry non-zero ISO reserved fields that the library normalises (C01's don't-care
	// list): the init boxes are compared only if the file is a fixed point of decode + box-tree encode
	keep := map[string]bool{"emsg": true, "moof": true, "mdat": true}
	if bt, err := encodeBoxTree(r, f); err == nil && bytes.Equal(bt, stream) {
		keep["ftyp"], keep["moov"] = true, true
		r.Probe("corpus-file-canonical")
	}
	enc := func() []byte {
		s := sim.NewSink(nil)
		var err error
		r.Guard("Encode", func() { err = f.Encode(s) })
		if err != nil {
			r.Violate("c12-reencode-error", "%s: segment-mode Encode failed: %v", cf.Name, err)
			return nil
		}
		return s.Buf
	}
	out := enc()
	if out == nil {
		return
	}
	topO, err := ref.Walk(out, 0, int64(len(out)), true)
	if err != nil {
		r.Violate("c12-reencode-bytes", "%s: re-encoded file is not a box sequence: %v", cf.Name, err)
		return
	}
	if a, b := C12Kept(out, topO, keep), C12Kept(stream, d.Top, keep); !bytes.Equal(a, b) {
		r.Violate("c12-reencode-bytes", "%s: init boxes + fragments of the re-encoded file differ from the input (first diff at %d of %d/%d)", cf.Name, firstDiff(a, b), len(a), len(b))
		return
	}
	add, nz := true, t.Bool()
	r.Guard("UpdateSidx", func() { err = f.UpdateSidx(add, nz) })
	r.Event("UpdateSidx", btoi(nz))
	if err != nil {
		r.Violate("c12-updatesidx-error", "%s: UpdateSidx failed: %v", cf.Name, err)
		return
	}
	if out = enc(); out != nil {
		C12CheckIndex(r, mode+":"+cf.Name, out, groups, refID, 0)
	}
}

// C12Stream is one emitted fragmented stream with its ground truth.
type C12Stream struct {
	Mode      string
	Stream    []byte
	Groups    [][]uint32 // mfhd sequence numbers per expected segment
	RefID     uint32
	Top0      []*ref.Box
	Emitted   []c12Frag
	SegStarts []int64
	MediaEnd  int64
}

// C12Build draws a delimiter mode among modes and assembles the stream of a packager production (nil after a violation).
func C12Build(r *sim.Run, modes []string) *C12Stream {
	t := r.T
	mode := modes[t.Draw(len(modes))]
	opts := work.PackOpts{MaxTracks: 3, MaxSegs: 4, MaxFrags: 3, MaxSamples: 4, Foreign: mode != "mfra", EmsgOnly: true, Styp: 2, NoEmptyTrack: false, LargeMdat: true}
	if mode == "styp" {
		opts.Styp = 1
	}
	var p *work.Production
	var err error
	if mode != "mfra" && t.Chance(250) {
		// fragments written byte by byte: values from trex / tfhd defaults, first_sample_flags, several truns, traks and
		// trex boxes in another order than the track ids (shapes the fragment API never writes)
		p, err = work.RawProduce(r, 3, 4, 3, 4)
		if err != nil {
			panic(sim.HarnessAbort{Msg: "raw fragment producer: " + err.Error()})
		}
		r.Probe("raw-fragment-production")
	} else {
		r.Guard("packager", func() { p, err = work.Package(r, opts) })
		if err != nil {
			r.Violate("packager-error", "a documented-valid API history failed: %v", err)
			return nil
		}
	}
	// reference track as the statement defines it: first video, else first audio, else first
	// ("first" in the order of the trak boxes in the moov, which need not be the order of the track ids)
	refIdx := 0
	found := false
	dInit, derr := ref.DemuxStream(p.InitBytes, nil)
	if derr != nil || dInit.Movie == nil {
		panic(sim.HarnessAbort{Msg: "init not readable by the reference"})
	}
	for _, want := range []string{"vide", "soun"} {
		for _, tr := range dInit.Movie.Tracks {
			if tr.Handler == want && !found {
				refIdx, found = int(tr.ID)-1, true
			}
		}
	}
	if !found && len(dInit.Movie.Tracks) > 0 {
		refIdx = int(dInit.Movie.Tracks[0].ID) - 1
	}
	refID := uint32(refIdx + 1)
	if p.Segs[0].Frags[0].Mode == "raw" && mode == "styp" {
		for _, s := range p.Segs {
			s.Bytes = append(work.RawStyp(), s.Bytes...)
		}
	}
	// the media data boxes of one segment carry bytes no sample refers to (in front of the first sample, with the data
	// offsets of the track runs moved along, and behind the last one): legal, and to be written back as it was read
	if t.Chance(120) {
		si := t.Draw(len(p.Segs))
		lead, trail := t.Draw(17), t.Draw(9)
		if nb, perr := work.PadMdat(p.Segs[si].Bytes, lead, trail); perr == nil && lead+trail > 0 {
			p.Segs[si].Bytes = nb
			r.Probe("mdat-with-unused-bytes")
			if lead > 0 {
				r.Probe("mdat-with-unused-leading-bytes")
			}
		}
	}
	// one of the foreign top-level boxes the producer put between the fragments (free, skip, prft, uuid, ...) is
	// rewritten into the 64-bit size form (legal for any box): the positions of everything behind it then differ from
	// the sum of the sizes the boxes have when they are written again
	if t.Chance(200) {
		type cand struct {
			si          int
			start, size int64
		}
		var cands []cand
		for si, s := range p.Segs {
			tops, werr := ref.Walk(s.Bytes, 0, int64(len(s.Bytes)), true)
			if werr != nil {
				continue
			}
			for _, b := range tops {
				switch b.Type {
				case "moof", "mdat", "styp", "sidx", "emsg":
				default:
					if b.Hdr == 8 {
						cands = append(cands, cand{si, b.Start, b.Size})
					}
				}
			}
		}
		if len(cands) > 0 {
			c := cands[t.Draw(len(cands))]
			sg := p.Segs[c.si]
			hdr := make([]byte, 16)
			binary.BigEndian.PutUint32(hdr, 1)
			copy(hdr[4:8], sg.Bytes[c.start+4:c.start+8])
			binary.BigEndian.PutUint64(hdr[8:], uint64(c.size+8))
			nb := append([]byte(nil), sg.Bytes[:c.start]...)
			nb = append(nb, hdr...)
			nb = append(nb, sg.Bytes[c.start+8:]...)
			sg.Bytes = nb
			r.Probe("foreign-top-level-box-largesize")
		}
	}
	// ---- assemble the stream with the delimiters of this mode
	stream := append([]byte(nil), p.InitBytes...)
	var groups [][]uint32 // ground truth: sequence numbers per segment
	for _, s := range p.Segs {
		var g []uint32
		for _, f := range s.Frags {
			g = append(g, f.Seq)
		}
		groups = append(groups, g)
	}
	segDur := func(si int) uint32 {
		var d uint32
		for _, f := range p.Segs[si].Frags {
			for _, rec := range p.Log[refIdx][f.From[refIdx]:f.To[refIdx]] {
				d += rec.Dur
			}
		}
		return d
	}
	switch mode {
	case "sidx":
		var refs []work.SidxRefSpec
		for si, s := range p.Segs {
			refs = append(refs, work.SidxRefSpec{Size: uint32(len(s.Bytes)), Dur: segDur(si)})
		}
		pad := 0
		if t.Chance(300) {
			pad = 8 + t.Draw(32)
		}
		stream = append(stream, work.RawSidx(byte(t.Draw(2)), refID, p.Tracks[refIdx].Timescale, 0, uint64(pad), refs)...)
		if pad > 0 {
			fb := make([]byte, pad)
			binary.BigEndian.PutUint32(fb, uint32(pad))
			copy(fb[4:], "free")
			stream = append(stream, fb...)
			r.Probe("sidx-first-offset-nonzero")
		}
	}
	if mode == "multi-sidx" {
		// hierarchical / daisy-chained index: leaf sidx A covers the first k segments, leaf sidx B the rest
		// (its first_offset skips A's media), optionally preceded by a parent sidx referencing the two leaves.
		n := len(p.Segs)
		k := 1 + t.Draw(n)
		if k > n {
			k = n
		}
		var ra, rb []work.SidxRefSpec
		var sizeA uint64
		for si, s := range p.Segs {
			ref := work.SidxRefSpec{Size: uint32(len(s.Bytes)), Dur: segDur(si)}
			if si < k {
				ra = append(ra, ref)
				sizeA += uint64(len(s.Bytes))
			} else {
				rb = append(rb, ref)
			}
		}
		ts := p.Tracks[refIdx].Timescale
		ver := byte(t.Draw(2))
		sb := work.RawSidx(ver, refID, ts, 0, sizeA, rb)
		sa := work.RawSidx(ver, refID, ts, 0, uint64(len(sb)), ra)
		if len(rb) == 0 {
			sb = nil
			sa = work.RawSidx(ver, refID, ts, 0, 0, ra)
		}
		if t.Bool() && sb != nil {
			parent := work.RawSidx(ver, refID, ts, 0, 0, []work.SidxRefSpec{{Size: uint32(len(sa)), Type: 1}, {Size: uint32(len(sb)), Type: 1}})
			stream = append(stream, parent...)
			r.Probe("parent-sidx")
		}
		stream = append(stream, sa...)
		stream = append(stream, sb...)
		r.Probe("multi-sidx-stream")
	}
	var segStarts []int64
	for si, s := range p.Segs {
		segStarts = append(segStarts, int64(len(stream)))
		if mode == "interleaved-sidx" {
			// DASH on-demand style without styp: one sidx with a single reference in front of every subsegment
			stream = append(stream, work.RawSidx(byte(t.Draw(2)), refID, p.Tracks[refIdx].Timescale, 0, 0, []work.SidxRefSpec{{Size: uint32(len(s.Bytes)), Dur: segDur(si)}})...)
		}
		stream = append(stream, s.Bytes...)
	}
	mediaEnd := int64(len(stream))
	top0, err := ref.Walk(stream, 0, int64(len(stream)), true)
	if err != nil {
		panic(sim.HarnessAbort{Msg: "emitted stream not walkable: " + err.Error()})
	}
	emitted := c12Frags(stream, top0)
	if mode == "mfra" {
		var offs, times []uint64
		k := 0
		for _, g := range groups {
			offs = append(offs, uint64(emitted[k].moofStart))
			times = append(times, uint64(k))
			k += len(g)
		}
		stream = append(stream, work.RawMfraOpt(refID, times, offs, byte(t.Draw(2)), uint32(t.Draw(64)))...)
		top0, _ = ref.Walk(stream, 0, int64(len(stream)), true)
	}
	switch mode {
	case "none":
		var all []uint32
		for _, g := range groups {
			all = append(all, g...)
		}
		groups = [][]uint32{all}
	case "start-on-moof":
		var each [][]uint32
		for _, g := range groups {
			for _, s := range g {
				each = append(each, []uint32{s})
			}
		}
		groups = each
	}
	r.Logf("mode=%s stream=%d bytes, %d fragments, expected grouping %v, ref track %d", mode, len(stream), len(emitted), groups, refID)
	r.Event("mode", t.Draw(1), len(groups), len(emitted))
	return &C12Stream{Mode: mode, Stream: stream, Groups: groups, RefID: refID, Top0: top0, Emitted: emitted, SegStarts: segStarts, MediaEnd: mediaEnd}
}

func c12Run(r *sim.Run) {
	t := r.T
	if t.Chance(150) {
		c12CorpusRun(r)
		return
	}
	cs := C12Build(r, c12Modes)
	if cs == nil {
		return
	}
	mode, stream, groups, refID, top0, emitted, segStarts, mediaEnd := cs.Mode, cs.Stream, cs.Groups, cs.RefID, cs.Top0, cs.Emitted, cs.SegStarts, cs.MediaEnd
	var err error
	// ---- decode
	var flags mp4.DecFileFlags
	switch mode {
	case "mfra":
		flags = mp4.DecISMFlag
	case "start-on-moof":
		flags = mp4.DecStartOnMoof
	}
	cfg := sim.DrawDelivery(t)
	lazy := t.Chance(300)
	seekFault := mode == "mfra" && t.Chance(150)
	if seekFault {
		cfg.SeekErrAt = 1 + t.Draw(3)
	}
	h := sim.NewHandle(r, "stream", stream, cfg)
	var f *mp4.File
	dopts := []mp4.Option{mp4.WithDecodeFlags(flags)}
	if lazy {
		dopts = append(dopts, mp4.WithDecodeMode(mp4.DecModeLazyMdat))
	}
	viaSR := mode != "mfra" && !lazy && t.Chance(300)
	r.NonTriv = true
	r.Guard("DecodeFile", func() {
		switch {
		case viaSR:
			f, err = mp4.DecodeFileSR(bits.NewFixedSliceReader(stream), dopts...)
		case lazy || mode == "mfra":
			f, err = mp4.DecodeFile(h, dopts...)
		default:
			f, err = mp4.DecodeFile(sim.StreamReader{H: h}, dopts...)
		}
	})
	r.Logf("decode lazy=%v viaSR=%v flags=%d delivery=%+v -> err=%v", lazy, viaSR, flags, cfg, err)
	if seekFault && h.Failed {
		if err == nil {
			r.Violate("c12-seek-error-swallowed", "DecodeFile with the ISM flag returned success although seek #%d on the disk failed", cfg.SeekErrAt)
		}
		return
	}
	if err != nil {
		r.Violate("c12-decode", "decoding the emitted stream (mode %s) failed: %v", mode, err)
		return
	}
	// ---- (1) grouping
	var got [][]uint32
	for si, sg := range f.Segments {
		var g []uint32
		for fi, fr := range sg.Fragments {
			if fr.Moof == nil || fr.Mdat == nil || fr.Moof.Mfhd == nil {
				r.Violate("c12-fragment-incomplete", "segment %d fragment %d has moof=%v mdat=%v after decoding (mode %s)", si, fi, fr.Moof != nil, fr.Mdat != nil, mode)
				continue
			}
			g = append(g, fr.Moof.Mfhd.SequenceNumber)
		}
		got = append(got, g)
	}
	if fmt.Sprint(got) != fmt.Sprint(groups) {
		r.Violate("c12-grouping", "mode %s: decoded grouping (mfhd sequence numbers per segment) %v, emitted %v", mode, got, groups)
		return
	}
	// moof start positions against the independent walk
	k := 0
	for _, sg := range f.Segments {
		for _, fr := range sg.Fragments {
			if k < len(emitted) && int64(fr.Moof.StartPos) != emitted[k].moofStart {
				r.Violate("c12-moof-pos", "fragment %d: moof.StartPos %d, it is at %d in the stream", k, fr.Moof.StartPos, emitted[k].moofStart)
			}
			k++
		}
	}
	if lazy {
		return // payload is not in memory: re-encoding is C08's subject
	}
	// ---- (2) re-encode in default segment mode: init boxes and every fragment byte-identical, in order
	encode := func(what string) []byte {
		var out []byte
		var err error
		if t.Bool() {
			s := sim.NewSink(nil)
			r.Guard(what, func() { err = f.Encode(s) })
			out = s.Buf
		} else {
			var sz uint64
			r.Guard("Size", func() { sz = f.Size() })
			sw := bits.NewFixedSliceWriter(int(sz) + 256)
			r.Guard(what+"(SW)", func() { err = f.EncodeSW(sw) })
			if err == nil {
				err = sw.AccError()
			}
			out = sw.Bytes()
		}
		if err != nil {
			r.Violate("c12-reencode-error", "%s of the decoded file (mode %s) failed: %v", what, mode, err)
			return nil
		}
		return out
	}
	keep := map[string]bool{"ftyp": true, "moov": true, "emsg": true, "moof": true, "mdat": true}
	out := encode("Encode")
	if out == nil {
		return
	}
	topO, err := ref.Walk(out, 0, int64(len(out)), true)
	if err != nil {
		r.Violate("c12-reencode-bytes", "re-encoded file is not a box sequence: %v", err)
		return
	}
	if a, b := C12Kept(out, topO, keep), C12Kept(stream, top0, keep); !bytes.Equal(a, b) {
		r.Violate("c12-reencode-bytes", "mode %s: init boxes + fragments of the re-encoded file differ from the emitted ones (first diff at %d of %d/%d)", mode, firstDiff(a, b), len(a), len(b))
		return
	}
	// ---- (2b) optionally the file is edited after sizes have been asked for: a sample is appended to one fragment
	// (single-track, single-run fragments only: the documented use of AddFullSample). The index oracle below works on
	// the output bytes alone, so it needs no knowledge of the edit.
	edited := false
	if t.Chance(250) {
		type cand struct{ si, fi int }
		var cands []cand
		for si, sg := range f.Segments {
			for fi, fr := range sg.Fragments {
				if len(fr.Moof.Trafs) == 1 && len(fr.Moof.Traf.Truns) == 1 && fr.Moof.Traf.Trun.HasSampleDuration() && fr.Moof.Traf.Trun.HasSampleSize() {
					cands = append(cands, cand{si, fi})
				}
			}
		}
		if len(cands) > 0 {
			c := cands[t.Draw(len(cands))]
			fr := f.Segments[c.si].Fragments[c.fi]
			data := make([]byte, 1+t.Draw(24))
			fs := mp4.FullSample{Sample: mp4.Sample{Flags: mp4.NonSyncSampleFlags, Dur: uint32(1 + t.Draw(2000)), Size: uint32(len(data))}, Data: data}
			r.Guard("Size", func() { _ = f.Size() })
			r.Guard("AddFullSample", func() { fr.AddFullSample(fs) })
			r.Logf("edit: Size() asked, then a %d-byte sample of duration %d appended to segment %d fragment %d", len(data), fs.Dur, c.si, c.fi)
			r.Event("edit", c.si, c.fi, len(data))
			r.Probe("edited-after-size")
			edited = true
		}
	}
	// ---- (3) UpdateSidx history, then encode and check the index against the output bytes
	n := 1 + t.Draw(2)
	added := mode == "sidx" || mode == "multi-sidx" || mode == "interleaved-sidx"
	for i := 0; i < n; i++ {
		add, nz := t.Bool(), t.Bool()
		if edited && i == 0 {
			add = true
		}
		r.Guard("UpdateSidx", func() { err = f.UpdateSidx(add, nz) })
		r.Logf("UpdateSidx(add=%v, nonZeroEPT=%v) -> %v", add, nz, err)
		r.Event("UpdateSidx", btoi(add), btoi(nz))
		if err != nil {
			r.Violate("c12-updatesidx-error", "UpdateSidx(%v,%v) failed: %v", add, nz, err)
			return
		}
		added = added || add
	}
	if !added {
		return
	}
	out = encode("Encode(after UpdateSidx)")
	if out == nil {
		return
	}
	C12CheckIndex(r, mode, out, groups, refID, mediaEnd-segStarts[0])
}

// C12CheckIndex locates the sidx and the segments in the OUTPUT bytes and checks the tiling.
func C12CheckIndex(r *sim.Run, mode string, out []byte, groups [][]uint32, refID uint32, mediaLen int64) {
	d, err := ref.DemuxStream(out, nil)
	if err != nil {
		r.Violate("c12-sidx", "output with sidx is not demuxable: %v", err)
		return
	}
	var sidx *ref.Box
	for _, b := range d.Top {
		if b.Type == "sidx" && sidx == nil {
			sidx = b // "the index" that UpdateSidx fills is the first top-level sidx
		}
	}
	if sidx == nil {
		r.Violate("c12-sidx", "no sidx box in the output after UpdateSidx(add=true)")
		return
	}
	pl := out[sidx.Payload():sidx.End()]
	if len(pl) < 24 {
		r.Violate("c12-sidx", "sidx too short")
		return
	}
	ver := pl[0]
	pos := 12
	var firstOff uint64
	if ver == 0 {
		firstOff = uint64(binary.BigEndian.Uint32(pl[pos+4:]))
		pos += 8
	} else {
		firstOff = binary.BigEndian.Uint64(pl[pos+8:])
		pos += 16
	}
	cnt := int(binary.BigEndian.Uint16(pl[pos+2:]))
	pos += 4
	if len(pl) < pos+12*cnt {
		r.Violate("c12-sidx", "sidx reference_count %d does not fit the box", cnt)
		return
	}
	type sref struct{ size, dur uint32 }
	var refs []sref
	for i := 0; i < cnt; i++ {
		w := binary.BigEndian.Uint32(pl[pos:])
		if w>>31 != 0 {
			r.Violate("c12-sidx", "reference %d is of type sidx", i)
		}
		refs = append(refs, sref{w & 0x7fffffff, binary.BigEndian.Uint32(pl[pos+4:])})
		pos += 12
	}
	if len(refs) != len(groups) {
		r.Violate("c12-sidx-count", "mode %s: sidx has %d references, the file has %d segments", mode, len(refs), len(groups))
		return
	}
	// segment starts in the output: styp if the segment has one, else first box of its first fragment
	frs := c12Frags(out, d.Top)
	var nfr int
	for _, g := range groups {
		nfr += len(g)
	}
	if len(frs) != nfr {
		r.Violate("c12-sidx", "output has %d fragments, %d expected", len(frs), nfr)
		return
	}
	// first byte of the segment that begins with the fragment starting at a given position: the styp box and/or the
	// sidx boxes directly in front of it belong to that segment - except for sidx boxes in front of the very first
	// media box, which are the file-level index (skipped by first_offset), unless a styp precedes them.
	segStartOf := map[int64]int64{}
	firstMedia := int64(-1)
	for _, b := range d.Top {
		if b.Type == "moof" || b.Type == "styp" || b.Type == "emsg" {
			firstMedia = b.Start
			break
		}
	}
	for i, b := range d.Top {
		if b.Type != "moof" && b.Type != "emsg" {
			continue
		}
		j := i - 1
		start := b.Start
		for j >= 0 && d.Top[j].Type == "sidx" {
			j--
		}
		if j >= 0 && d.Top[j].Type == "styp" {
			start = d.Top[j].Start
		} else if j+1 < i && d.Top[j+1].Start > firstMedia {
			start = d.Top[j+1].Start // sidx run after earlier media: it opens this segment
		}
		if _, dup := segStartOf[b.Start]; !dup {
			segStartOf[b.Start] = start
		}
	}
	anchor := sidx.End() + int64(firstOff)
	cur := anchor
	k := 0
	var lastEnd int64
	for gi, g := range groups {
		first := frs[k]
		start := first.start
		if s, ok := segStartOf[start]; ok {
			start = s
		}
		if mode == "mfra" && cur == first.moofStart {
			// tfra entries point at moof boxes: whether event messages in front of that moof open the segment or close
			// the previous one is not defined by the statement; both tilings are accepted
			start = cur
		}
		if cur != start {
			r.Violate("c12-sidx-offset", "mode %s: sidx reference %d starts at byte %d of the output, its segment starts at %d", mode, gi, cur, start)
			return
		}
		var dur uint64
		for j := 0; j < len(g); j++ {
			fr := d.Fragments[k+j]
			for _, ft := range fr.Tracks {
				if ft.TrackID == refID {
					for _, s := range ft.Samples {
						dur += uint64(s.Dur)
					}
				}
			}
			lastEnd = frs[k+j].end
		}
		if uint64(refs[gi].dur) != dur {
			r.Violate("c12-sidx-duration", "mode %s: sidx reference %d has duration %d, the reference track %d has %d in that segment", mode, gi, refs[gi].dur, refID, dur)
		}
		cur += int64(refs[gi].size)
		k += len(g)
	}
	if cur != lastEnd {
		r.Violate("c12-sidx-end", "mode %s: sidx references end at byte %d, the media ends at %d", mode, cur, lastEnd)
	}
	r.Probe("sidx-tiling-checked")
}

func init() {
	sim.Register(&sim.Prop{
		ID:    "C12",
		Level: "exploration",
		Rule: "15% of runs take a real fragmented corpus file (ground truth grouping from the independent walk: styp boxes, else media references of the top-level sidx box(es), else one segment) through decode, segment-mode re-encode, UpdateSidx and the index check; the other runs: a packager node emits 1-4 segments x 1-3 fragments x 1-3 tracks (emsg/prft/free/uuid/unknown boxes in front of moofs, payload in or after the fragment) and the stream is assembled with one delimiter mode: styp per segment, raw top-level sidx (v0/v1, optional non-zero first_offset), two leaf sidx boxes with or without a parent sidx (hierarchical index), one single-reference sidx in front of every segment (no styp), raw mfra/tfra/mfro + ISM flag on a seekable SimDisk handle (optional seek error), none, none + start-on-moof; " +
			"decode by reader path with seeded delivery, lazy or eager, or slice path; (1) grouping of mfhd sequence numbers per segment and moof positions vs the producer's emission log / independent walk, (2) segment-mode re-encode by either encoder keeps ftyp+moov+emsg+moof+mdat bytes in order, " +
			"(3) a seeded history of 1-2 UpdateSidx(add, nonZeroEPT) then encode: references located in the OUTPUT bytes by the independent walker must be contiguous, start on each segment's first byte, end at the end of the media, durations = reference-track sums from the independent demuxer. " +
			"non-trivial = every run (unit stream + delivery); distinct = hash of (API history, mode, segment/fragment counts, UpdateSidx history, delivered read sizes).",
		Assumptions: []string{"delimiter modes are pure (no mixing of styp with sidx/mfra), because the statement does not define precedence", "mfra mode carries no foreign top-level boxes other than event messages in front of a moof (either tiling of those is accepted)", "reference_ID and earliest_presentation_time values are not constrained by the statement and not checked"},
		Real:        realLib, Stub: []string{"io.Reader/io.ReadSeeker (SimDisk handle incl. seek errors)", "unit stream assembly with raw delimiter boxes", "virtual device time"}, RealNoFault: realNoFault,
		Runs:       map[string]int{"quick": 300000, "thorough": 25000000},
		Setup:      C12Setup,
		Run:        c12Run,
		WantFaults: []string{"seek-eio", "read-short", "read-zero"},
		WantProbes: []string{"sidx-tiling-checked", "sidx-first-offset-nonzero"},
	})
}
