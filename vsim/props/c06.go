//go:build go1.21

package props

import (
	"bytes"
	"crypto/sha1"
	"encoding/binary"
	"encoding/hex"
	"fmt"
	"sort"

	"github.com/Eyevinn/mp4ff/aac"
	"github.com/Eyevinn/mp4ff/bits"
	"github.com/Eyevinn/mp4ff/hevc"
	"github.com/Eyevinn/mp4ff/internal/vsim/ref"
	"github.com/Eyevinn/mp4ff/internal/vsim/sim"
	"github.com/Eyevinn/mp4ff/internal/vsim/work"
	"github.com/Eyevinn/mp4ff/mp4"
)

// C06 — decrypting what was encrypted restores the content.
// The C05 world with an encryptor node between packager and origin and a decryptor in the player.
// Encryption/decryption are multi-message protocols with state carried across calls (InitProtectData,
// DecryptInfo, in-place mutation); the simulator chooses which segments are decrypted, in what order,
// how often, against an init delivered in the same stream or separately, and which foreign boxes sit
// in moof/traf and in front of the fragments.

var c06Sources []*work.SampleSource

type thirdParty struct {
	name, init, key string
}

var c06ThirdParty = []thirdParty{
	{"prog_8s_enc_dashinit.mp4", "", "63cb5f7184dd4b689a5c5ff11ee6a328"},
	{"cbcs.mp4", "", "22bdb0063805260307ee5045c0f3835a"},
	{"cbcs_audio.mp4", "", "5ffd93861fa776e96cccd934898fc1c8"},
	{"complseg-1.0001.mp4", "", "602a9289bfb9b1995b75ac63f123fc86"},
	{"segment-1.0001.m4s", "cmd/mp4ff-decrypt/testdata/PIFF/audio/init.mp4", "602a9289bfb9b1995b75ac63f123fc86"},
}

func c06Setup() error {
	if err := work.SetupPackager(); err != nil {
		return err
	}
	s, err := work.LoadSources()
	if err != nil {
		return err
	}
	c06Sources = s
	for _, tp := range c06ThirdParty {
		if work.ByName(tp.name) == nil {
			return fmt.Errorf("c06: corpus file %s missing", tp.name)
		}
	}
	return nil
}

// protection signalling: these boxes may appear/disappear; everything else must be conserved
var piffSenc = []byte{0xa2, 0x39, 0x4f, 0x52, 0x5a, 0x9b, 0x4f, 0x14, 0xa2, 0x44, 0x6c, 0x42, 0x7c, 0x64, 0x8d, 0xf4}
var piffPssh = []byte{0xd0, 0x8a, 0x4f, 0x18, 0x10, 0xf3, 0x4a, 0x82, 0xb6, 0xc8, 0x32, 0xd8, 0xab, 0xa1, 0x83, 0xd3}

func isProtectionBox(data []byte, b *ref.Box) bool {
	switch b.Type {
	case "sinf", "pssh", "senc", "saiz", "saio":
		return true
	case "sbgp", "sgpd":
		return b.Payload()+8 <= b.End() && string(data[b.Payload()+4:b.Payload()+8]) == "seig"
	case "uuid":
		if b.Payload()+16 <= b.End() {
			u := data[b.Payload() : b.Payload()+16]
			return bytes.Equal(u, piffSenc) || bytes.Equal(u, piffPssh)
		}
	}
	return false
}

// inventory lists every leaf box outside the protection set as "path:sha1(bytes)" (sorted: a multiset).
// trun and mdat are left out: their content is decided by the sample-log comparison (sizes, timing,
// offsets resolving to the right bytes). Sample entries are listed by their fixed part with the four-cc.
func inventory(data []byte, roots []*ref.Box, only map[string]bool) []string {
	var out []string
	var rec func(b *ref.Box, path string)
	rec = func(b *ref.Box, path string) {
		if isProtectionBox(data, b) || b.Type == "mdat" || b.Type == "trun" {
			return
		}
		p := path + "/" + b.Type
		if len(b.Children) > 0 {
			// fixed part of the container (e.g. sample entry fields) counts as a leaf without the size field
			first := b.Children[0].Start
			h := sha1.Sum(data[b.Start+4 : first])
			out = append(out, fmt.Sprintf("%s{fixed}:%x", p, h[:6]))
			for _, c := range b.Children {
				rec(c, p)
			}
			return
		}
		h := sha1.Sum(data[b.Start:b.End()])
		out = append(out, fmt.Sprintf("%s:%x", p, h[:6]))
	}
	for _, b := range roots {
		if only != nil && !only[b.Type] {
			continue
		}
		rec(b, "")
	}
	sort.Strings(out)
	return out
}

func diffInventory(a, b []string) string {
	ma := map[string]int{}
	for _, x := range a {
		ma[x]++
	}
	for _, x := range b {
		ma[x]--
	}
	var missing, extra []string
	for k, v := range ma {
		if v > 0 {
			missing = append(missing, k)
		} else if v < 0 {
			extra = append(extra, k)
		}
	}
	sort.Strings(missing)
	sort.Strings(extra)
	if len(missing)+len(extra) == 0 {
		return ""
	}
	return fmt.Sprintf("missing after decryption %v, new/changed after decryption %v", missing, extra)
}

type C06Frag struct {
	From, To int
	Seq      uint32
}

type C06Prod struct {
	Codec     string
	Media     string
	TrackID   uint32
	Log       []work.SampleRec
	ClearInit []byte
	ClearSegs [][]byte
	EncInit   []byte
	EncSegs   [][]byte
	Frags     [][]C06Frag
	Foreign   []string
}

func randIV(t *sim.Tape, rnd *sim.Rand) []byte {
	n := 16
	if t.Bool() {
		n = 8
	}
	iv := make([]byte, n)
	switch t.Draw(5) {
	case 0:
		rnd.Fill(iv)
	case 1: // counter about to wrap
		for i := range iv {
			iv[i] = 0xff
		}
	case 2:
		rnd.Fill(iv)
		for i := n - 4; i < n; i++ {
			iv[i] = 0xff
		}
		iv[n-1] = 0xfe
	case 3:
		// all zero
	default:
		rnd.Fill(iv)
		if n == 16 {
			for i := 8; i < 16; i++ {
				iv[i] = 0xff
			}
		}
	}
	return iv
}

// c06Produce builds a clear single-track production, encodes it, encrypts it in place and encodes it again.
func c06Produce(r *sim.Run, scheme string, key, iv []byte) (*C06Prod, error) {
	// The clear production is built from a private tape seeded by one draw, so that the same history can be
	// built twice: once to obtain the clear encoding, once to be encrypted without ever having been encoded.
	seed := uint64(r.T.Draw(1 << 30))
	flow := r.T.Draw(2) // 0: decode the clear stream, then encrypt the decoded objects (what mp4ff-encrypt does); 1: encrypt freshly built objects
	cinit, csegs, p, err := c06Build(r, sim.NewTape(seed), scheme, true)
	if err != nil {
		return nil, err
	}
	enc := func(what string, init *mp4.InitSegment, segs []*mp4.MediaSegment) ([]byte, [][]byte, error) {
		if r.T.Chance(150) {
			// the device refuses one write while the (clear or protected) init is written: Encode must say so
			fs := sim.NewSink(r)
			fs.FailAtOp = 1 + r.T.Draw(48)
			ferr := init.Encode(fs)
			if fs.Failed {
				r.Probe("init-encode-write-refused")
				if ferr == nil {
					r.Violate("c06-swallowed-write-error", "write #%d was refused while the %s init was encoded, Encode reported success having delivered %d bytes", fs.FailAtOp, what, len(fs.Buf))
				}
			}
		}
		var ib bytes.Buffer
		if err := init.Encode(&ib); err != nil {
			return nil, nil, fmt.Errorf("%s init encode: %w", what, err)
		}
		var sb [][]byte
		for _, s := range segs {
			var b bytes.Buffer
			if err := s.Encode(&b); err != nil {
				return nil, nil, fmt.Errorf("%s segment encode: %w", what, err)
			}
			sb = append(sb, b.Bytes())
		}
		return ib.Bytes(), sb, nil
	}
	if p.ClearInit, p.ClearSegs, err = enc("clear", cinit, csegs); err != nil {
		return nil, err
	}
	var init *mp4.InitSegment
	var segs []*mp4.MediaSegment
	if flow == 0 {
		stream := append([]byte(nil), p.ClearInit...)
		for _, s := range p.ClearSegs {
			stream = append(stream, s...)
		}
		f, err := decodeWith(r, "clear stream", stream, r.T.Bool(), sim.DrawDelivery(r.T))
		if err != nil || f.Init == nil || len(f.Segments) != len(csegs) {
			return nil, fmt.Errorf("decoding the clear stream before encryption: %v", err)
		}
		init, segs = f.Init, f.Segments
		r.Probe("encrypt-decoded-objects")
	} else {
		init, segs, _, err = c06Build(r, sim.NewTape(seed), scheme, false)
		if err != nil {
			return nil, err
		}
		r.Probe("encrypt-built-objects")
	}
	r.Event("flow", flow)
	// ---- encryptor node
	t := r.T
	kid, _ := mp4.NewUUIDFromString(hex.EncodeToString(key[:8]) + "0011223344556677")
	var psshs []*mp4.PsshBox
	if t.Chance(400) {
		ps, err := mp4.NewPsshBox("edef8ba9-79d6-4ace-a3c8-27dcd51d21ed", nil, []byte("vsim-pssh"))
		if err == nil {
			psshs = append(psshs, ps)
		}
	}
	ipd, err := mp4.InitProtect(init, key, iv, scheme, kid, psshs)
	if err != nil {
		return nil, fmt.Errorf("InitProtect: %w", err)
	}
	for _, s := range segs {
		for _, f := range s.Fragments {
			if err := mp4.EncryptFragment(f, key, iv, ipd); err != nil {
				return nil, fmt.Errorf("EncryptFragment: %w", err)
			}
			r.Event("EncryptFragment")
		}
	}
	if p.EncInit, p.EncSegs, err = enc("encrypted", init, segs); err != nil {
		return nil, err
	}
	return p, nil
}

// C06Setup / C06Produce / C06RandIV: exported for the tool harnesses of cmd/mp4ff-encrypt and cmd/mp4ff-decrypt.
func C06Setup() error { return c06Setup() }
func C06Produce(r *sim.Run, scheme string, key, iv []byte) (*C06Prod, error) {
	return c06Produce(r, scheme, key, iv)
}
func C06RandIV(t *sim.Tape, rnd *sim.Rand) []byte { return randIV(t, rnd) }

// c06Build builds the clear production from tape t (probes/events only when first is set).
func c06Build(r *sim.Run, t *sim.Tape, scheme string, first bool) (*mp4.InitSegment, []*mp4.MediaSegment, *C06Prod, error) {
	rnd := t.Sub()
	p := &C06Prod{}
	var init *mp4.InitSegment
	var pool []work.SampleRec
	synthetic := t.Chance(300)
	if scheme == "cbcs" && synthetic && t.Bool() {
		synthetic = false // cbcs video needs parsable slice headers: real samples only (synthetic audio is fine)
	}
	if synthetic {
		init = mp4.CreateEmptyInit()
		video := scheme == "cenc" && t.Bool()
		if video {
			init.AddEmptyTrack(90000, "video", "und")
			cf := c06Sources[0]
			fi, err := decodeMem(cf.InitBytes)
			if err != nil {
				return nil, nil, nil, err
			}
			avcC := fi.Moov.Trak.Mdia.Minf.Stbl.Stsd.AvcX.AvcC
			if err := init.Moov.Trak.SetAVCDescriptor("avc1", avcC.SPSnalus, avcC.PPSnalus, true); err != nil {
				return nil, nil, nil, err
			}
			p.Codec, p.Media = "avc1", "video"
		} else {
			init.AddEmptyTrack(48000, "audio", "en")
			if err := init.Moov.Trak.SetAACDescriptor(aac.AAClc, 48000); err != nil {
				return nil, nil, nil, err
			}
			p.Codec, p.Media = "mp4a", "audio"
		}
		p.TrackID = 1
		if first {
			r.Probe("synthetic-payloads")
		}
	} else {
		src := c06Sources[t.Draw(len(c06Sources))]
		fi, err := decodeMem(src.InitBytes)
		if err != nil || fi.Init == nil {
			return nil, nil, nil, fmt.Errorf("source init %s: %v", src.Name, err)
		}
		init = fi.Init
		pool = src.Samples
		if stsd := init.Moov.Trak.Mdia.Minf.Stbl.Stsd; stsd.HvcX != nil && stsd.HvcX.HvcC != nil && t.Chance(300) {
			// the parameter-set arrays of the configuration record in another (legal) order, e.g. PPS before SPS
			arr := stsd.HvcX.HvcC.DecConfRec.NaluArrays
			if n := len(arr); n > 1 {
				k := 1 + t.Draw(n-1)
				rot := append(append([]hevc.NaluArray(nil), arr[k:]...), arr[:k]...)
				if t.Bool() {
					for i, j := 0, len(rot)-1; i < j; i, j = i+1, j-1 {
						rot[i], rot[j] = rot[j], rot[i]
					}
				}
				stsd.HvcX.HvcC.DecConfRec.NaluArrays = rot
				if first {
					r.Probe("hvcC-arrays-reordered")
				}
			}
		}
		p.Codec, p.Media, p.TrackID = src.Codec, src.Media, src.TrackID
		if first {
			r.Probe("real-samples:" + src.Codec)
		}
	}
	if first {
		r.Event("codec", int(sim.HashString(p.Codec)&0xff), btoi(synthetic))
	}
	// HEVC: IDR pictures labelled IDR_W_RADL (19) instead of IDR_N_LP (20): same slice syntax, another NAL unit type
	relabelIDR := (p.Codec == "hvc1" || p.Codec == "hev1") && t.Chance(400)
	nSegs := 1 + t.Draw(3)
	var segs []*mp4.MediaSegment
	poolPos := 0
	if pool != nil {
		poolPos = t.Draw(len(pool))
	}
	var dts uint64 = uint64(t.Draw(1 << 20))
	seq := uint32(1)
	for si := 0; si < nSegs; si++ {
		seg := mp4.NewMediaSegment()
		var frs []C06Frag
		for fi := 0; fi < 1+t.Draw(3); fi++ {
			frag, _ := mp4.CreateFragment(seq, p.TrackID)
			fr := C06Frag{From: len(p.Log), Seq: seq}
			seq++
			if t.Chance(60) {
				frag.Mdat.LargeSize = true // media data box written with the 64-bit size form
			}
			if t.Chance(400) { // foreign boxes in moof / traf, added through the API
				if t.Chance(300) {
					// sample groups that have nothing to do with protection: a roll-recovery group (sbgp + sgpd of type
					// "roll", as AAC pre-roll signalling uses), added through the API as decoded boxes
					sg := []byte{0, 0, 0, 26, 's', 'g', 'p', 'd', 1, 0, 0, 0, 'r', 'o', 'l', 'l', 0, 0, 0, 2, 0, 0, 0, 1, 0xff, 0xff}
					sb := []byte{0, 0, 0, 28, 's', 'b', 'g', 'p', 0, 0, 0, 0, 'r', 'o', 'l', 'l', 0, 0, 0, 1, 0, 0, 0, 1, 0, 1, 0, 1}
					for _, raw := range [][]byte{sb, sg} {
						if b, err := mp4.DecodeBoxSR(0, bits.NewFixedSliceReader(raw)); err == nil {
							_ = frag.Moof.Traf.AddChild(b)
						}
					}
					p.Foreign = append(p.Foreign, "traf:sbgp+sgpd(roll)")
				} else if t.Bool() {
					b, name := foreignBoxC06(t, rnd, "traf")
					_ = frag.Moof.Traf.AddChild(b)
					p.Foreign = append(p.Foreign, "traf:"+name)
				} else {
					b, name := foreignBoxC06(t, rnd, "moof")
					_ = frag.Moof.AddChild(b)
					if t.Bool() {
						// in front of the traf: [mfhd, X, traf]
						ch := frag.Moof.Children
						if n := len(ch); n >= 3 {
							frag.Moof.Children = append(append(append([]mp4.Box(nil), ch[0]), ch[n-1]), ch[1:n-1]...)
							name += "(before traf)"
						}
					}
					p.Foreign = append(p.Foreign, "moof:"+name)
				}
			}
			n := 1 + t.Draw(5)
			for k := 0; k < n; k++ {
				var rec work.SampleRec
				if pool != nil {
					rec = pool[poolPos%len(pool)]
					poolPos++
					if relabelIDR {
						rec.Data = hevcRelabelIDR(rec.Data)
					}
				} else if p.Media == "video" {
					rec = work.SampleRec{Data: synthNALSample(t, rnd), Dur: 3000, Flags: mp4.NonSyncSampleFlags, Cto: int32(t.Draw(3)) * 3000}
				} else {
					b := make([]byte, []int{0, 1, 15, 16, 17, 31, 32, 33, 100, 367, 1024}[t.Draw(11)])
					rnd.Fill(b)
					rec = work.SampleRec{Data: b, Dur: 1024, Flags: mp4.SyncSampleFlags}
				}
				rec.Dts = dts
				dts += uint64(rec.Dur)
				p.Log = append(p.Log, rec)
				frag.AddFullSample(mp4.FullSample{Sample: mp4.Sample{Flags: rec.Flags, Dur: rec.Dur, Size: uint32(len(rec.Data)), CompositionTimeOffset: rec.Cto}, DecodeTime: rec.Dts, Data: rec.Data})
			}
			fr.To = len(p.Log)
			if t.Chance(250) {
				frag.AddEmsg(&mp4.EmsgBox{Version: 1, TimeScale: 90000, PresentationTime: uint64(t.Draw(100000)), EventDuration: 1, ID: uint32(fi), SchemeIDURI: "urn:vsim", Value: "1"})
				p.Foreign = append(p.Foreign, "top:emsg")
			}
			seg.AddFragment(frag)
			frs = append(frs, fr)
		}
		segs = append(segs, seg)
		p.Frags = append(p.Frags, frs)
	}
	return init, segs, p, nil
}

// hevcRelabelIDR returns a copy of a length-prefixed HEVC sample in which every NAL unit of type 20 has type 19.
func hevcRelabelIDR(sample []byte) []byte {
	out := append([]byte(nil), sample...)
	for pos := 0; pos+6 <= len(out); {
		n := int(binary.BigEndian.Uint32(out[pos:]))
		if n < 2 || pos+4+n > len(out) {
			break
		}
		if out[pos+4]>>1&0x3f == 20 {
			out[pos+4] = out[pos+4]&0x81 | 19<<1
		}
		pos += 4 + n
	}
	return out
}

func synthNALSample(t *sim.Tape, rnd *sim.Rand) []byte {
	var out []byte
	nn := 1 + t.Draw(3)
	many := t.Chance(40)
	if many {
		nn = 35 + t.Draw(30) // many slices in one sample: 40 sub-sample entries make the aux info exceed 255 bytes
	}
	for i := 0; i < nn; i++ {
		if many {
			n := 113 + t.Draw(40)
			nalu := make([]byte, n)
			rnd.Fill(nalu)
			nalu[0] = 0x41
			var l [4]byte
			binary.BigEndian.PutUint32(l[:], uint32(n))
			out = append(append(out, l[:]...), nalu...)
			continue
		}
		n := []int{1, 2, 15, 16, 17, 100, 111, 112, 113, 127, 128, 129, 144, 145, 1000, 65535 + 200}[t.Draw(16)]
		nalu := make([]byte, n)
		rnd.Fill(nalu)
		nalu[0] = []byte{0x65, 0x41, 0x06, 0x09, 0x01, 0x67, 0x68}[t.Draw(7)]
		var l [4]byte
		binary.BigEndian.PutUint32(l[:], uint32(n))
		out = append(append(out, l[:]...), nalu...)
	}
	return out
}

func foreignBoxC06(t *sim.Tape, rnd *sim.Rand, where string) (mp4.Box, string) {
	n := t.Draw(40)
	pl := make([]byte, n)
	rnd.Fill(pl)
	switch t.Draw(5) {
	case 0:
		return mp4.NewFreeBox(pl), "free"
	case 1:
		return mp4.CreateUnknownBox("zzzz", uint64(8+n), pl), "unknown:zzzz"
	case 2:
		return mp4.NewTfxdBox(uint64(t.Draw(1000000)), uint64(t.Draw(100000))), "uuid:tfxd"
	case 3:
		return mp4.NewTfrfBox(1, []uint64{uint64(t.Draw(1000000))}, []uint64{uint64(t.Draw(100000))}), "uuid:tfrf"
	default:
		u := &mp4.UUIDBox{UnknownPayload: pl}
		_ = u.SetUUID("0123456789abcdef0123456789abcdef")
		return u, "uuid:vendor"
	}
}

func stsdEntryType(data []byte, top []*ref.Box) string {
	moov := ref.FindTop(top, "moov")
	if moov == nil {
		return ""
	}
	if stsd := moov.Path("trak", "mdia", "minf", "stbl", "stsd"); stsd != nil && len(stsd.Children) > 0 {
		return stsd.Children[0].Type
	}
	return ""
}

func c06Run(r *sim.Run) {
	t := r.T
	if t.Chance(100) {
		c06ThirdPartyRun(r)
		return
	}
	rnd := t.Sub()
	scheme := []string{"cenc", "cbcs"}[t.Draw(2)]
	keyBuf := make([]byte, 16) // the caller's key buffer: reused for a second key below
	rnd.Fill(keyBuf)
	iv := randIV(t, rnd)
	r.Logf("scheme=%s iv=%x (%d bytes)", scheme, iv, len(iv))
	r.Event("scheme", t.Draw(1), len(iv))
	var p *C06Prod
	var err error
	r.Guard("producer+encryptor", func() { p, err = c06Produce(r, scheme, keyBuf, iv) })
	if err != nil {
		r.Violate("c06-encrypt-error", "encrypting a clear %s track failed: %v", scheme, err)
		return
	}
	if p == nil {
		return
	}
	k1 := append([]byte(nil), keyBuf...)
	r.Logf("produced %s/%s: %d samples, %d segments, foreign=%v", p.Codec, p.Media, len(p.Log), len(p.EncSegs), p.Foreign)
	r.NonTriv = true
	if t.Chance(300) {
		// a second, unrelated track is encrypted with ANOTHER key held in the SAME caller buffer, before anything
		// is decrypted; then both are played back, each with its own key (a legal multi-step caller history)
		rnd.Fill(keyBuf)
		scheme2 := []string{"cenc", "cbcs"}[t.Draw(2)]
		var p2 *C06Prod
		r.Guard("producer+encryptor(2)", func() { p2, err = c06Produce(r, scheme2, keyBuf, randIV(t, rnd)) })
		if err != nil || p2 == nil {
			r.Violate("c06-encrypt-error", "encrypting a second clear %s track failed: %v", scheme2, err)
			return
		}
		k2 := append([]byte(nil), keyBuf...)
		r.Probe("two-tracks-two-keys-one-buffer")
		r.Event("two-keys")
		order := t.Bool()
		if order {
			c06Play(r, p2, k2)
			c06Play(r, p, k1)
		} else {
			c06Play(r, p, k1)
			c06Play(r, p2, k2)
		}
		return
	}
	c06Play(r, p, k1)
}

// c06Play is the player node: fetches the encrypted production (whole or init + segments in seeded order with
// repeats), decrypts with key and applies the oracles against the clear production.
func c06Play(r *sim.Run, p *C06Prod, key []byte) {
	t := r.T
	var err error
	boxTree := t.Bool()
	cfg := sim.DrawDelivery(t)
	viaSR := t.Bool()
	same := t.Bool()
	check := func(who string, clear, dec []byte, frs []C06Frag, withInit bool) {
		C06Check(r, p, who, clear, dec, frs, withInit, boxTree)
	}
	reencode := func(f *mp4.File) []byte {
		if boxTree {
			f.FragEncMode = mp4.EncModeBoxTree
		}
		if t.Chance(200) {
			// the device refuses one write while the decrypted file is written: the caller must hear about it (a decrypted
			// file that silently lacks bytes does not restore the content), and the next attempt must be complete
			fs := sim.NewSink(r)
			fs.FailAtOp = 1 + t.Draw(64)
			var ferr error
			r.Guard("Encode(decrypted, one write refused)", func() { ferr = f.Encode(fs) })
			if fs.Failed {
				r.Probe("decrypted-encode-write-refused")
				if ferr == nil {
					r.Violate("c06-swallowed-write-error", "write #%d was refused while the decrypted file was encoded, Encode reported success having delivered %d bytes", fs.FailAtOp, len(fs.Buf))
				}
			}
		}
		s := sim.NewSink(nil)
		var err error
		r.Guard("Encode(decrypted)", func() { err = f.Encode(s) })
		if err != nil {
			r.Violate("c06-reencode", "encoding the decrypted file failed: %v", err)
		}
		return s.Buf
	}
	if same {
		// init and all segments in one stream, as mp4ff-decrypt handles a complete file
		enc := append([]byte(nil), p.EncInit...)
		clear := append([]byte(nil), p.ClearInit...)
		var frs []C06Frag
		for i := range p.EncSegs {
			enc = append(enc, p.EncSegs[i]...)
			clear = append(clear, p.ClearSegs[i]...)
			frs = append(frs, p.Frags[i]...)
		}
		r.Event("player-whole", btoi(viaSR), btoi(boxTree))
		f, err := decodeWith(r, "encrypted stream", enc, viaSR, cfg)
		if err != nil || f.Init == nil {
			r.Violate("c06-decode-encrypted", "decoding the encrypted stream failed: %v", err)
			return
		}
		var di mp4.DecryptInfo
		r.Guard("DecryptInit", func() { di, err = mp4.DecryptInit(f.Init) })
		if err != nil {
			r.Violate("c06-decrypt-error", "DecryptInit failed: %v", err)
			return
		}
		for si, seg := range f.Segments {
			r.Guard("DecryptSegment", func() { err = mp4.DecryptSegment(seg, di, key) })
			if err != nil {
				r.Violate("c06-decrypt-error", "DecryptSegment(%d) failed: %v", si, err)
				return
			}
		}
		check(fmt.Sprintf("whole stream (boxTree=%v)", boxTree), clear, reencode(f), frs, true)
		return
	}
	// init delivered separately; segments decrypted independently, in seeded order, with repeats
	fi, err := decodeWith(r, "encrypted init", p.EncInit, viaSR, cfg)
	if err != nil || fi.Init == nil {
		r.Violate("c06-decode-encrypted", "decoding the encrypted init failed: %v", err)
		return
	}
	var di mp4.DecryptInfo
	r.Guard("DecryptInit", func() { di, err = mp4.DecryptInit(fi.Init) })
	if err != nil {
		r.Violate("c06-decrypt-error", "DecryptInit failed: %v", err)
		return
	}
	decInit := reencode(fi)
	check("init alone", p.ClearInit, decInit, nil, true)
	nFetch := len(p.EncSegs) + t.Draw(3)
	seen := make([]int, len(p.EncSegs))
	for k := 0; k < nFetch; k++ {
		si := k
		if k >= len(p.EncSegs) || t.Chance(400) {
			si = t.Draw(len(p.EncSegs))
		}
		seen[si]++
		if seen[si] > 1 {
			r.Fault("segment-duplicated")
		}
		if si != k {
			r.Fault("segment-reordered")
		}
		r.Event("player-seg", si)
		// every fetch delivers a fresh buffer (the slice path aliases its input and decryption works in place)
		fetched := append([]byte(nil), p.EncSegs[si]...)
		fs, err := decodeWith(r, fmt.Sprintf("encrypted seg %d", si), fetched, viaSR, sim.DrawDelivery(t))
		if err != nil {
			r.Violate("c06-decode-encrypted", "decoding encrypted segment %d alone failed: %v", si, err)
			return
		}
		for _, seg := range fs.Segments {
			r.Guard("DecryptSegment", func() { err = mp4.DecryptSegment(seg, di, key) })
			if err != nil {
				r.Violate("c06-decrypt-error", "DecryptSegment(segment %d fetched separately) failed: %v", si, err)
				return
			}
		}
		check(fmt.Sprintf("segment %d alone (boxTree=%v, fetch #%d)", si, boxTree, k), p.ClearSegs[si], reencode(fs), p.Frags[si], false)
	}
}

// C06Check applies the C06 oracles to a decrypted encoding `dec` of (part of) production p whose clear encoding is
// `clear`: per fragment the independent demuxer must read back the clear sample log; the sample entry four-cc is
// restored (withInit); the multiset of boxes outside the protection signalling is unchanged (boxTree: including
// top-level foreign boxes; otherwise only what segment-mode encoding keeps).
func C06Check(r *sim.Run, p *C06Prod, who string, clear, dec []byte, frs []C06Frag, withInit, boxTree bool) {
	// a. samples via the independent demuxer and via the library
	var trex map[uint32]*ref.Trex
	if !withInit {
		di, err := ref.DemuxStream(p.ClearInit, nil)
		if err != nil || di.Movie == nil {
			panic(sim.HarnessAbort{Msg: "clear init not demuxable"})
		}
		trex = di.Movie.Trex
	}
	d, err := ref.DemuxStream(dec, trex)
	if err != nil {
		r.Violate("c06-output-walk", "%s: decrypted output is not a well-formed box stream: %v", who, err)
		return
	}
	if len(d.Fragments) != len(frs) {
		r.Violate("c06-fragcount", "%s: %d fragments after decryption, %d before", who, len(d.Fragments), len(frs))
		return
	}
	for i, fr := range frs {
		var got []gotSample
		for _, ft := range d.Fragments[i].Tracks {
			if ft.TrackID == p.TrackID {
				for _, s := range ft.Samples {
					got = append(got, gotSample{Data: s.Bytes(dec), Size: s.Size, Dur: s.Dur, Flags: s.Flags, Cto: s.Cto, Dts: s.Dts})
				}
			}
		}
		cmpSamples(r, "c06", fmt.Sprintf("%s fragment seq=%d (reference demuxer)", who, fr.Seq), 0, p.Log[fr.From:fr.To], got)
	}
	// c. sample entry type restored
	if withInit {
		if got := stsdEntryType(dec, d.Top); got != p.Codec {
			r.Violate("c06-sample-entry", "%s: sample entry is %q after decryption, the clear track had %q", who, got, p.Codec)
		}
	}
	// d. inventory of non-protection boxes
	ct, err := ref.Walk(clear, 0, int64(len(clear)), true)
	if err != nil {
		panic(sim.HarnessAbort{Msg: "clear stream not walkable"})
	}
	var only map[string]bool
	if !boxTree {
		only = map[string]bool{"ftyp": true, "moov": true, "styp": true, "emsg": true, "moof": true}
	}
	if diff := diffInventory(inventory(clear, ct, only), inventory(dec, d.Top, only)); diff != "" {
		r.Violate("c06-inventory", "%s: boxes outside the protection signalling changed: %s", who, diff)
	}
}

// c06ThirdPartyRun: corpus content encrypted by others decrypts to sizes and timing identical to its encrypted form.
func c06ThirdPartyRun(r *sim.Run) {
	t := r.T
	tp := c06ThirdParty[t.Draw(len(c06ThirdParty))]
	cf := work.ByName(tp.name)
	key, _ := hex.DecodeString(tp.key)
	var initBytes []byte
	if tp.init != "" {
		c, _ := work.LoadCorpus()
		for _, x := range c {
			if x.Path == tp.init {
				initBytes = x.Data
			}
		}
		if initBytes == nil {
			panic(sim.HarnessAbort{Msg: "third-party init missing: " + tp.init})
		}
	}
	r.NonTriv = true
	r.Event("third-party", int(sim.HashString(tp.name)&0xffff))
	r.Logf("third-party %s (separate init: %v)", tp.name, tp.init != "")
	cfg := sim.DrawDelivery(t)
	viaSR := t.Bool()
	f, err := decodeWith(r, tp.name, cf.Data, viaSR, cfg)
	if err != nil {
		r.Violate("c06-third-party", "%s does not decode: %v", tp.name, err)
		return
	}
	init := f.Init
	var trex map[uint32]*ref.Trex
	encStream := cf.Data
	if init == nil {
		fi, err := decodeWith(r, "init", initBytes, viaSR, sim.DrawDelivery(t))
		if err != nil || fi.Init == nil {
			r.Violate("c06-third-party", "separate init of %s does not decode: %v", tp.name, err)
			return
		}
		init = fi.Init
		di, err := ref.DemuxStream(initBytes, nil)
		if err != nil || di.Movie == nil {
			panic(sim.HarnessAbort{Msg: "third-party init not demuxable"})
		}
		trex = di.Movie.Trex
	}
	before, err := ref.DemuxStream(encStream, trex)
	if err != nil {
		panic(sim.HarnessAbort{Msg: "third-party file not demuxable by the reference: " + err.Error()})
	}
	if tp.init == "" && t.Chance(250) {
		// the same file with its trak boxes and its trex boxes in another order (legal: they are matched by track id)
		if nd, err := work.PermuteTracks(t, cf.Data); err == nil && !bytes.Equal(nd, cf.Data) {
			if d2, err := ref.DemuxStream(nd, trex); err == nil && len(d2.Fragments) == len(before.Fragments) {
				if f2, err := decodeWith(r, tp.name+"+permuted-tracks", nd, viaSR, cfg); err == nil && f2.Init != nil {
					encStream, before, f, init = nd, d2, f2, f2.Init
					r.Probe("third-party-tracks-permuted")
				} else {
					r.Violate("c06-third-party", "%s with trak/trex boxes in another order does not decode: %v", tp.name, err)
					return
				}
			}
		}
	} else if t.Chance(350) {
		// key-rotation style: two pssh boxes of different sizes in every moof (byte surgery, validated against the
		// reference demuxer: every sample must still be found with the same bytes)
		if nd, err := work.InsertMoofPssh(cf.Data); err == nil {
			d2, err := ref.DemuxStream(nd, trex)
			if err != nil || len(d2.Fragments) != len(before.Fragments) {
				panic(sim.HarnessAbort{Msg: fmt.Sprintf("pssh-in-moof variant of %s is not consistent: %v", tp.name, err)})
			}
			for i := range d2.Fragments {
				for ti := range d2.Fragments[i].Tracks {
					a, b := before.Fragments[i].Tracks[ti].Samples, d2.Fragments[i].Tracks[ti].Samples
					for k := range a {
						if k >= len(b) || !bytes.Equal(a[k].Bytes(encStream), b[k].Bytes(nd)) {
							panic(sim.HarnessAbort{Msg: fmt.Sprintf("pssh-in-moof variant of %s moved sample bytes", tp.name)})
						}
					}
				}
			}
			encStream, before = nd, d2
			if f, err = decodeWith(r, tp.name+"+pssh-in-moof", nd, viaSR, cfg); err != nil {
				r.Violate("c06-third-party", "%s with pssh boxes in every moof does not decode: %v", tp.name, err)
				return
			}
			if f.Init != nil {
				init = f.Init
			}
			r.Probe("third-party-pssh-in-moof")
		}
	}
	var di mp4.DecryptInfo
	r.Guard("DecryptInit", func() { di, err = mp4.DecryptInit(init) })
	if err != nil {
		r.Violate("c06-third-party", "%s: DecryptInit failed: %v", tp.name, err)
		return
	}
	for si, seg := range f.Segments {
		r.Guard("DecryptSegment", func() { err = mp4.DecryptSegment(seg, di, key) })
		if err != nil {
			r.Violate("c06-third-party", "%s: DecryptSegment(%d) failed: %v", tp.name, si, err)
			return
		}
	}
	s := sim.NewSink(nil)
	r.Guard("Encode", func() { err = f.Encode(s) })
	if err != nil {
		r.Violate("c06-third-party", "%s: encoding the decrypted file failed: %v", tp.name, err)
		return
	}
	after, err := ref.DemuxStream(s.Buf, trex)
	if err != nil {
		r.Violate("c06-third-party", "%s: decrypted output is not a well-formed stream: %v", tp.name, err)
		return
	}
	if len(before.Fragments) != len(after.Fragments) {
		r.Violate("c06-third-party", "%s: %d fragments before, %d after decryption", tp.name, len(before.Fragments), len(after.Fragments))
		return
	}
	for i := range before.Fragments {
		bf, af := before.Fragments[i], after.Fragments[i]
		if len(bf.Tracks) != len(af.Tracks) {
			r.Violate("c06-third-party", "%s fragment %d: track count changed", tp.name, i)
			continue
		}
		for ti := range bf.Tracks {
			bs, as := bf.Tracks[ti].Samples, af.Tracks[ti].Samples
			if len(bs) != len(as) {
				r.Violate("c06-third-party", "%s fragment %d track %d: %d samples before, %d after", tp.name, i, bf.Tracks[ti].TrackID, len(bs), len(as))
				continue
			}
			for k := range bs {
				if bs[k].Size != as[k].Size || bs[k].Dur != as[k].Dur || bs[k].Cto != as[k].Cto || bs[k].Dts != as[k].Dts {
					r.Violate("c06-third-party", "%s fragment %d sample %d: size/dur/cto/dts %d/%d/%d/%d before, %d/%d/%d/%d after", tp.name, i, k,
						bs[k].Size, bs[k].Dur, bs[k].Cto, bs[k].Dts, as[k].Size, as[k].Dur, as[k].Cto, as[k].Dts)
				}
				if as[k].Bytes(s.Buf) == nil {
					r.Violate("c06-third-party", "%s fragment %d sample %d: data offset points outside the file after decryption", tp.name, i, k)
				}
				// decryption is in place: a sample stays where it was inside its media data box
				if ra, rb := c06RelOff(before, bs[k].Offset), c06RelOff(after, as[k].Offset); ra < 0 || ra != rb {
					r.Violate("c06-third-party-offset", "%s fragment %d track %d sample %d: %d bytes into its mdat payload before decryption, %d after", tp.name, i, bf.Tracks[ti].TrackID, k, ra, rb)
				}
			}
		}
	}
	r.Probe("third-party:" + tp.name)
}

// c06RelOff: offset of an absolute position relative to the payload of the top-level mdat box holding it (-1: none).
func c06RelOff(d *ref.Demux, off int64) int64 {
	for _, b := range d.Top {
		if b.Type == "mdat" && off >= b.Payload() && off <= b.End() {
			return off - b.Payload()
		}
	}
	return -1
}

func init() {
	sim.Register(&sim.Prop{
		ID:    "C06",
		Level: "exploration",
		Rule: "each run: scheme cenc|cbcs, random key, IV of 8 or 16 bytes (random, all-ff, low bytes ff, zero: counter wrap), a clear single-track production of 1-3 segments x 1-3 fragments built from real corpus samples (AVC, HEVC, AAC; cbcs video needs real slice headers) or synthetic NAL/audio payloads around the 16/112/128/65535-byte thresholds, " +
			"vendor uuid (tfxd, tfrf, unknown), free and unknown boxes inside moof/traf, emsg in front, optional pssh; clear encoding, then InitProtect + EncryptFragment (in place) and encrypted encoding; a player decodes the encrypted stream whole or the init separately and segments in seeded order with repeats (either decode path, seeded delivery), " +
			"runs DecryptInit/DecryptSegment and re-encodes in box-tree or segment mode; oracle: per fragment the independent demuxer reads back the clear sample log (bytes, size, dur, flags, cto, dts), sample entry four-cc restored, multiset of all boxes outside the protection set equal to the clear encoding. " +
			"10% of runs: third-party encrypted corpus files (cenc, cbcs video/audio, PIFF with in-file or separate init) must decrypt to identical sizes and timing with offsets inside the file. non-trivial = every run; distinct = hash of (scheme, IV size, codec, fragment layout, fetch order, encode mode, delivered read sizes).",
		Assumptions: []string{"whether the ciphertext is standard CENC is C07 (pure function) and not decided here", "single track / one trun per fragment, as InitProtect and EncryptFragment document", "order of boxes is not demanded by the statement: the inventory is a multiset"},
		Real:        realLib, Stub: []string{"io.Reader delivery (SimDisk handle)", "segment fetch order / duplication / separate init (unit transport)", "virtual device time"}, RealNoFault: realNoFault,
		Runs:       map[string]int{"quick": 200000, "thorough": 12000000},
		Setup:      c06Setup,
		Run:        c06Run,
		WantFaults: []string{"segment-duplicated", "segment-reordered", "read-short"},
		WantProbes: []string{"real-samples:avc1", "real-samples:mp4a", "synthetic-payloads", "third-party:cbcs.mp4", "third-party:segment-1.0001.m4s"},
	})
}
