//go:build go1.21

// Package ref holds the reference models: an independent box walker and an independent
// demuxer written from ISO/IEC 14496-12, importing nothing from mp4ff.
package ref

import (
	"encoding/binary"
	"fmt"
)

// Box is one box found by the independent walker.
type Box struct {
	Type     string
	Start    int64 // offset of the size field
	Size     int64 // total size including header
	Hdr      int64 // 8 or 16 (24/32 for uuid is not counted: usertype is payload here)
	Children []*Box
	Parent   *Box
	Depth    int
}

func (b *Box) End() int64     { return b.Start + b.Size }
func (b *Box) Payload() int64 { return b.Start + b.Hdr }

// plain containers: children start right after the header
var plainContainers = map[string]bool{
	"moov": true, "trak": true, "mdia": true, "minf": true, "stbl": true, "dinf": true, "edts": true,
	"mvex": true, "moof": true, "traf": true, "mfra": true, "udta": true, "sinf": true, "schi": true,
	"tref": false,
}

// childOffset returns where children start inside a box's payload, or -1 if not a container.
func childOffset(typ string) int64 {
	if plainContainers[typ] {
		return 0
	}
	switch typ {
	case "stsd":
		return 8 // version/flags + entry_count
	case "meta":
		return 4
	case "avc1", "avc3", "hvc1", "hev1", "encv", "av01", "vp08", "vp09":
		return 78
	case "mp4a", "enca", "ac-3", "ec-3":
		return 28
	case "dref":
		return 8
	}
	return -1
}

// ReadHeader parses a box header at off within [off,end).
func ReadHeader(data []byte, off, end int64) (*Box, error) {
	if off+8 > end {
		return nil, fmt.Errorf("refbox: header at %d crosses end %d", off, end)
	}
	size := int64(binary.BigEndian.Uint32(data[off:]))
	typ := string(data[off+4 : off+8])
	hdr := int64(8)
	if size == 1 {
		if off+16 > end {
			return nil, fmt.Errorf("refbox: largesize header at %d crosses end %d", off, end)
		}
		u := binary.BigEndian.Uint64(data[off+8:])
		if u > 1<<62 {
			return nil, fmt.Errorf("refbox: absurd largesize at %d", off)
		}
		size = int64(u)
		hdr = 16
	} else if size == 0 {
		size = end - off
	}
	if size < hdr {
		return nil, fmt.Errorf("refbox: box %q at %d has size %d < header", typ, off, size)
	}
	if off+size > end {
		return nil, fmt.Errorf("refbox: box %q at %d size %d crosses end %d", typ, off, size, end)
	}
	return &Box{Type: typ, Start: off, Size: size, Hdr: hdr}, nil
}

// Walk parses the boxes tiling [start,end). deep>0 descends into known containers.
func Walk(data []byte, start, end int64, deep bool) ([]*Box, error) {
	return walk(data, start, end, deep, nil, 0)
}

func walk(data []byte, start, end int64, deep bool, parent *Box, depth int) ([]*Box, error) {
	var out []*Box
	off := start
	for off < end {
		b, err := ReadHeader(data, off, end)
		if err != nil {
			return out, err
		}
		b.Parent = parent
		b.Depth = depth
		if deep && depth < 12 {
			co := childOffset(b.Type)
			if b.Type == "meta" && b.Payload()+8 <= b.End() && string(data[b.Payload()+4:b.Payload()+8]) == "hdlr" {
				co = 0 // QuickTime-style meta: no version/flags word, the handler box comes first
			}
			if co >= 0 && b.Payload()+co <= b.End() {
				ch, err := walk(data, b.Payload()+co, b.End(), deep, b, depth+1)
				if err == nil {
					b.Children = ch
				}
				// a non-parsable interior is left as a leaf: the walker is used on arbitrary data too
			}
		}
		out = append(out, b)
		off += b.Size
	}
	return out, nil
}

// TopLevel walks the top-level boxes of data.
func TopLevel(data []byte) ([]*Box, error) { return Walk(data, 0, int64(len(data)), false) }

// Flatten lists boxes depth-first.
func Flatten(bs []*Box) []*Box {
	var out []*Box
	var rec func(b *Box)
	rec = func(b *Box) {
		out = append(out, b)
		for _, c := range b.Children {
			rec(c)
		}
	}
	for _, b := range bs {
		rec(b)
	}
	return out
}

// Find returns the first child of the given type.
func (b *Box) Find(typ string) *Box {
	for _, c := range b.Children {
		if c.Type == typ {
			return c
		}
	}
	return nil
}

// FindAll returns all children of the given type.
func (b *Box) FindAll(typ string) []*Box {
	var out []*Box
	for _, c := range b.Children {
		if c.Type == typ {
			out = append(out, c)
		}
	}
	return out
}

// Path finds a descendant by successive types.
func (b *Box) Path(types ...string) *Box {
	cur := b
	for _, t := range types {
		if cur == nil {
			return nil
		}
		cur = cur.Find(t)
	}
	return cur
}

// FindTop returns the first top-level box of a type.
func FindTop(bs []*Box, typ string) *Box {
	for _, b := range bs {
		if b.Type == typ {
			return b
		}
	}
	return nil
}

// CheckSizes verifies on a deep walk that every container's size is header + sum of children
// (plus its fixed prefix) and that the top level tiles the data. Returns the first discrepancy.
func CheckSizes(data []byte) error {
	top, err := Walk(data, 0, int64(len(data)), true)
	if err != nil {
		return err
	}
	var pos int64
	for _, b := range top {
		if b.Start != pos {
			return fmt.Errorf("refbox: top-level box %q at %d, expected %d", b.Type, b.Start, pos)
		}
		pos = b.End()
	}
	if pos != int64(len(data)) {
		return fmt.Errorf("refbox: top-level boxes end at %d, data is %d", pos, len(data))
	}
	for _, b := range Flatten(top) {
		co := childOffset(b.Type)
		if b.Type == "meta" && b.Payload()+8 <= b.End() && string(data[b.Payload()+4:b.Payload()+8]) == "hdlr" {
			co = 0
		}
		if co < 0 {
			continue
		}
		if b.Children == nil && b.Payload()+co < b.End() {
			// try again to get the error
			_, err := walk(data, b.Payload()+co, b.End(), true, b, b.Depth+1)
			if err != nil {
				return fmt.Errorf("refbox: container %q at %d: children do not tile it: %v", b.Type, b.Start, err)
			}
		}
		sum := b.Hdr + co
		for _, c := range b.Children {
			sum += c.Size
		}
		if len(b.Children) > 0 && sum != b.Size {
			return fmt.Errorf("refbox: container %q at %d has size %d but header+children = %d", b.Type, b.Start, b.Size, sum)
		}
	}
	return nil
}
