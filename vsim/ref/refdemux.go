//go:build go1.21

package ref

import (
	"encoding/binary"
	"fmt"
)

// Sample is one media sample as the reference demuxer sees it.
type Sample struct {
	Offset int64 // absolute position in the file/stream
	Size   uint32
	Dts    uint64
	Dur    uint32
	Cto    int32
	Flags  uint32 // fragmented: resolved sample_flags. progressive: 0
	Sync   bool
	Sdtp   int // progressive: sdtp byte or -1
}

// Track is the naive per-sample expansion of one track.
type Track struct {
	ID        uint32
	Timescale uint32
	Handler   string
	Samples   []Sample
	// progressive only
	ChunkOffsets []int64
	MdhdDur      uint64
	TkhdDur      uint64
	HasStss      bool
	HasCtts      bool
	ElstPresent  bool
}

type rd struct {
	b   []byte
	p   int
	err error
}

func (r *rd) need(n int) bool {
	if r.err != nil {
		return false
	}
	if n < 0 || r.p+n > len(r.b) {
		r.err = fmt.Errorf("refdemux: read past end of box payload (pos %d need %d len %d)", r.p, n, len(r.b))
		return false
	}
	return true
}
func (r *rd) u8() uint8 {
	if !r.need(1) {
		return 0
	}
	v := r.b[r.p]
	r.p++
	return v
}
func (r *rd) u16() uint16 {
	if !r.need(2) {
		return 0
	}
	v := binary.BigEndian.Uint16(r.b[r.p:])
	r.p += 2
	return v
}
func (r *rd) u32() uint32 {
	if !r.need(4) {
		return 0
	}
	v := binary.BigEndian.Uint32(r.b[r.p:])
	r.p += 4
	return v
}
func (r *rd) u64() uint64 {
	if !r.need(8) {
		return 0
	}
	v := binary.BigEndian.Uint64(r.b[r.p:])
	r.p += 8
	return v
}
func (r *rd) skip(n int) {
	if r.need(n) {
		r.p += n
	}
}

func payload(data []byte, b *Box) *rd {
	return &rd{b: data[b.Payload():b.End()]}
}

// MovieInfo is what the reference reads from a moov.
type MovieInfo struct {
	Timescale uint32
	Duration  uint64
	NextTrack uint32
	Tracks    []*Track
	Trex      map[uint32]*Trex
	HasMvex   bool
}

// Trex holds track-extends defaults.
type Trex struct {
	TrackID, DescIdx, Dur, Size, Flags uint32
}

// ParseMoov expands a moov box (progressive sample tables if present, trex defaults).
func ParseMoov(data []byte, moov *Box) (*MovieInfo, error) {
	mi := &MovieInfo{Trex: map[uint32]*Trex{}}
	if mvhd := moov.Find("mvhd"); mvhd != nil {
		r := payload(data, mvhd)
		v := r.u8()
		r.skip(3)
		if v == 1 {
			r.skip(16)
			mi.Timescale = r.u32()
			mi.Duration = r.u64()
		} else {
			r.skip(8)
			mi.Timescale = r.u32()
			mi.Duration = uint64(r.u32())
		}
		// rate(4) volume(2) reserved(2+8) matrix(36) pre_defined(24) next_track_ID(4)
		r.skip(4 + 2 + 10 + 36 + 24)
		mi.NextTrack = r.u32()
		if r.err != nil {
			return nil, r.err
		}
	}
	if mvex := moov.Find("mvex"); mvex != nil {
		mi.HasMvex = true
		for _, tx := range mvex.FindAll("trex") {
			r := payload(data, tx)
			r.skip(4)
			t := &Trex{}
			t.TrackID = r.u32()
			t.DescIdx = r.u32()
			t.Dur = r.u32()
			t.Size = r.u32()
			t.Flags = r.u32()
			if r.err != nil {
				return nil, r.err
			}
			mi.Trex[t.TrackID] = t
		}
	}
	for _, trak := range moov.FindAll("trak") {
		t, err := parseTrak(data, trak)
		if err != nil {
			return nil, err
		}
		mi.Tracks = append(mi.Tracks, t)
	}
	return mi, nil
}

func parseTrak(data []byte, trak *Box) (*Track, error) {
	t := &Track{}
	tkhd := trak.Find("tkhd")
	if tkhd == nil {
		return nil, fmt.Errorf("refdemux: trak without tkhd")
	}
	r := payload(data, tkhd)
	v := r.u8()
	r.skip(3)
	if v == 1 {
		r.skip(16)
		t.ID = r.u32()
		r.skip(4)
		t.TkhdDur = r.u64()
	} else {
		r.skip(8)
		t.ID = r.u32()
		r.skip(4)
		t.TkhdDur = uint64(r.u32())
	}
	if r.err != nil {
		return nil, r.err
	}
	if edts := trak.Find("edts"); edts != nil && edts.Find("elst") != nil {
		t.ElstPresent = true
	}
	mdia := trak.Find("mdia")
	if mdia == nil {
		return nil, fmt.Errorf("refdemux: trak without mdia")
	}
	if mdhd := mdia.Find("mdhd"); mdhd != nil {
		r := payload(data, mdhd)
		v := r.u8()
		r.skip(3)
		if v == 1 {
			r.skip(16)
			t.Timescale = r.u32()
			t.MdhdDur = r.u64()
		} else {
			r.skip(8)
			t.Timescale = r.u32()
			t.MdhdDur = uint64(r.u32())
		}
		if r.err != nil {
			return nil, r.err
		}
	}
	if hdlr := mdia.Find("hdlr"); hdlr != nil {
		r := payload(data, hdlr)
		r.skip(8)
		if r.need(4) {
			t.Handler = string(r.b[r.p : r.p+4])
		}
	}
	stbl := mdia.Path("minf", "stbl")
	if stbl == nil {
		return t, nil
	}
	if err := expandTables(data, stbl, t); err != nil {
		return nil, fmt.Errorf("refdemux: track %d: %w", t.ID, err)
	}
	return t, nil
}

// expandTables performs the naive per-sample expansion of stts/ctts/stsc/stsz/stco|co64/stss/sdtp.
func expandTables(data []byte, stbl *Box, t *Track) error {
	// sizes
	var sizes []uint32
	if b := stbl.Find("stsz"); b != nil {
		r := payload(data, b)
		r.skip(4)
		uni := r.u32()
		n := r.u32()
		if r.err != nil {
			return r.err
		}
		if uint64(n) > uint64(len(data)) {
			return fmt.Errorf("stsz sample_count %d larger than file", n)
		}
		sizes = make([]uint32, n)
		for i := range sizes {
			if uni != 0 {
				sizes[i] = uni
			} else {
				sizes[i] = r.u32()
			}
		}
		if r.err != nil {
			return r.err
		}
	} else if stbl.Find("stz2") != nil {
		return fmt.Errorf("stz2 not supported by reference")
	}
	n := len(sizes)
	if n == 0 {
		return nil
	}
	samples := make([]Sample, n)
	for i := range samples {
		samples[i].Size = sizes[i]
		samples[i].Sdtp = -1
	}
	// stts
	if b := stbl.Find("stts"); b != nil {
		r := payload(data, b)
		r.skip(4)
		ec := r.u32()
		i := 0
		var dts uint64
		for e := uint32(0); e < ec && r.err == nil; e++ {
			cnt := r.u32()
			delta := r.u32()
			for k := uint32(0); k < cnt && i < n; k++ {
				samples[i].Dts = dts
				samples[i].Dur = delta
				dts += uint64(delta)
				i++
			}
		}
		if r.err != nil {
			return r.err
		}
		if i != n {
			return fmt.Errorf("stts covers %d samples, stsz has %d", i, n)
		}
	} else {
		return fmt.Errorf("no stts")
	}
	// ctts
	if b := stbl.Find("ctts"); b != nil {
		t.HasCtts = true
		r := payload(data, b)
		ver := r.u8()
		r.skip(3)
		ec := r.u32()
		i := 0
		for e := uint32(0); e < ec && r.err == nil; e++ {
			cnt := r.u32()
			off := r.u32()
			for k := uint32(0); k < cnt && i < n; k++ {
				_ = ver // both versions are stored as 32 bits; v0 is unsigned but offsets > 2^31 do not occur
				samples[i].Cto = int32(off)
				i++
			}
		}
		if r.err != nil {
			return r.err
		}
	}
	// stss
	if b := stbl.Find("stss"); b != nil {
		t.HasStss = true
		r := payload(data, b)
		r.skip(4)
		ec := r.u32()
		for e := uint32(0); e < ec && r.err == nil; e++ {
			s := r.u32()
			if s >= 1 && int(s) <= n {
				samples[s-1].Sync = true
			}
		}
		if r.err != nil {
			return r.err
		}
	} else {
		for i := range samples {
			samples[i].Sync = true
		}
	}
	// sdtp
	if b := stbl.Find("sdtp"); b != nil {
		r := payload(data, b)
		r.skip(4)
		for i := 0; i < n && r.p < len(r.b); i++ {
			samples[i].Sdtp = int(r.u8())
		}
	}
	// chunk offsets
	var offs []int64
	if b := stbl.Find("stco"); b != nil {
		r := payload(data, b)
		r.skip(4)
		ec := r.u32()
		for e := uint32(0); e < ec && r.err == nil; e++ {
			offs = append(offs, int64(r.u32()))
		}
		if r.err != nil {
			return r.err
		}
	} else if b := stbl.Find("co64"); b != nil {
		r := payload(data, b)
		r.skip(4)
		ec := r.u32()
		for e := uint32(0); e < ec && r.err == nil; e++ {
			offs = append(offs, int64(r.u64()))
		}
		if r.err != nil {
			return r.err
		}
	} else {
		return fmt.Errorf("neither stco nor co64")
	}
	t.ChunkOffsets = offs
	// stsc: per chunk number of samples
	b := stbl.Find("stsc")
	if b == nil {
		return fmt.Errorf("no stsc")
	}
	r := payload(data, b)
	r.skip(4)
	ec := r.u32()
	type ent struct{ first, spc, sdi uint32 }
	ents := make([]ent, 0, ec)
	for e := uint32(0); e < ec && r.err == nil; e++ {
		ents = append(ents, ent{r.u32(), r.u32(), r.u32()})
	}
	if r.err != nil {
		return r.err
	}
	si := 0
	for ci := 1; ci <= len(offs) && si < n; ci++ {
		// entry that governs chunk ci: last entry with first <= ci
		var spc uint32
		for _, e := range ents {
			if int(e.first) <= ci {
				spc = e.spc
			} else {
				break
			}
		}
		pos := offs[ci-1]
		for k := uint32(0); k < spc && si < n; k++ {
			samples[si].Offset = pos
			pos += int64(samples[si].Size)
			si++
		}
	}
	if si != n {
		return fmt.Errorf("stsc/stco place %d samples, stsz has %d", si, n)
	}
	t.Samples = samples
	return nil
}

// FragTrack is the samples of one track inside one moof.
type FragTrack struct {
	TrackID uint32
	BaseDts uint64
	HasTfdt bool
	Samples []Sample
}

// Fragment is one moof as the reference sees it.
type Fragment struct {
	MoofStart int64
	MoofEnd   int64
	Seq       uint32
	Tracks    []FragTrack
}

// ParseMoof resolves tfhd/tfdt/trun of one moof with trex defaults (ISO/IEC 14496-12 8.8).
func ParseMoof(data []byte, moof *Box, trex map[uint32]*Trex) (*Fragment, error) {
	f := &Fragment{MoofStart: moof.Start, MoofEnd: moof.End()}
	if mfhd := moof.Find("mfhd"); mfhd != nil {
		r := payload(data, mfhd)
		r.skip(4)
		f.Seq = r.u32()
	}
	var prevTrafEnd int64 = -1
	for ti, traf := range moof.FindAll("traf") {
		tfhd := traf.Find("tfhd")
		if tfhd == nil {
			return nil, fmt.Errorf("refdemux: traf without tfhd")
		}
		r := payload(data, tfhd)
		vf := r.u32()
		fl := vf & 0xffffff
		ft := FragTrack{TrackID: r.u32()}
		var baseOff int64
		hasBase := false
		if fl&0x1 != 0 {
			baseOff = int64(r.u64())
			hasBase = true
		}
		if fl&0x2 != 0 {
			r.skip(4)
		}
		defDur, defSize, defFlags := uint32(0), uint32(0), uint32(0)
		if tx := trex[ft.TrackID]; tx != nil {
			defDur, defSize, defFlags = tx.Dur, tx.Size, tx.Flags
		}
		if fl&0x8 != 0 {
			defDur = r.u32()
		}
		if fl&0x10 != 0 {
			defSize = r.u32()
		}
		if fl&0x20 != 0 {
			defFlags = r.u32()
		}
		if r.err != nil {
			return nil, r.err
		}
		if !hasBase {
			if fl&0x20000 != 0 || ti == 0 || prevTrafEnd < 0 {
				baseOff = moof.Start
			} else {
				baseOff = prevTrafEnd
			}
		}
		if tfdt := traf.Find("tfdt"); tfdt != nil {
			r := payload(data, tfdt)
			v := r.u8()
			r.skip(3)
			if v == 1 {
				ft.BaseDts = r.u64()
			} else {
				ft.BaseDts = uint64(r.u32())
			}
			ft.HasTfdt = true
			if r.err != nil {
				return nil, r.err
			}
		}
		dts := ft.BaseDts
		var runEnd int64 = baseOff
		for ri, trun := range traf.FindAll("trun") {
			r := payload(data, trun)
			vf := r.u32()
			ver := vf >> 24
			tf := vf & 0xffffff
			cnt := r.u32()
			pos := runEnd
			if tf&0x1 != 0 {
				pos = baseOff + int64(int32(r.u32()))
			} else if ri == 0 {
				pos = baseOff
			}
			firstFlags, hasFirst := uint32(0), false
			if tf&0x4 != 0 {
				firstFlags = r.u32()
				hasFirst = true
			}
			if uint64(cnt) > uint64(len(data)) {
				return nil, fmt.Errorf("refdemux: trun sample_count %d larger than file", cnt)
			}
			for i := uint32(0); i < cnt; i++ {
				s := Sample{Dur: defDur, Size: defSize, Flags: defFlags, Sdtp: -1}
				if tf&0x100 != 0 {
					s.Dur = r.u32()
				}
				if tf&0x200 != 0 {
					s.Size = r.u32()
				}
				if tf&0x400 != 0 {
					s.Flags = r.u32()
				} else if i == 0 && hasFirst {
					s.Flags = firstFlags
				}
				if tf&0x800 != 0 {
					c := r.u32()
					_ = ver
					s.Cto = int32(c)
				}
				s.Offset = pos
				s.Dts = dts
				s.Sync = s.Flags&0x00010000 == 0 // sample_is_non_sync_sample bit clear
				pos += int64(s.Size)
				dts += uint64(s.Dur)
				ft.Samples = append(ft.Samples, s)
			}
			if r.err != nil {
				return nil, r.err
			}
			runEnd = pos
		}
		prevTrafEnd = runEnd
		f.Tracks = append(f.Tracks, ft)
	}
	return f, nil
}

// Demux is the reference reading of a whole byte stream.
type Demux struct {
	Top       []*Box
	Movie     *MovieInfo
	Fragments []*Fragment
}

// DemuxStream walks a byte stream: moov (if any) and every moof. A trex table can be supplied
// for streams that carry no moov (media segments delivered separately from their init).
func DemuxStream(data []byte, trex map[uint32]*Trex) (*Demux, error) {
	top, err := Walk(data, 0, int64(len(data)), true)
	if err != nil {
		return nil, err
	}
	d := &Demux{Top: top}
	for _, b := range top {
		switch b.Type {
		case "moov":
			mi, err := ParseMoov(data, b)
			if err != nil {
				return nil, err
			}
			d.Movie = mi
			if trex == nil {
				trex = mi.Trex
			}
		case "moof":
			f, err := ParseMoof(data, b, trex)
			if err != nil {
				return nil, err
			}
			d.Fragments = append(d.Fragments, f)
		}
	}
	return d, nil
}

// TrackSamples concatenates a track's samples over all fragments, in stream order.
func (d *Demux) TrackSamples(trackID uint32) []Sample {
	var out []Sample
	for _, f := range d.Fragments {
		for _, ft := range f.Tracks {
			if ft.TrackID == trackID {
				out = append(out, ft.Samples...)
			}
		}
	}
	return out
}

// Bytes returns the payload of a sample or nil if it lies outside data.
func (s Sample) Bytes(data []byte) []byte {
	if s.Offset < 0 || s.Offset+int64(s.Size) > int64(len(data)) {
		return nil
	}
	return data[s.Offset : s.Offset+int64(s.Size)]
}
