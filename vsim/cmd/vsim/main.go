//go:build go1.21

// Command vsim is the deterministic-simulation driver: coordinator, worker, replay, shrink.
package main

import (
	"flag"
	"fmt"
	"os"
	"strconv"

	_ "github.com/Eyevinn/mp4ff/internal/vsim/props"
	"github.com/Eyevinn/mp4ff/internal/vsim/sim"
)

func envSeed() uint64 {
	if s := os.Getenv("VERIF_SEED"); s != "" {
		if v, err := strconv.ParseUint(s, 10, 64); err == nil {
			return v
		}
		if v, err := strconv.ParseInt(s, 10, 64); err == nil {
			return uint64(v)
		}
	}
	return 1
}

func main() {
	if len(os.Args) < 2 {
		fmt.Fprintln(os.Stderr, "usage: vsim run --prop ID --tier quick|thorough [--runs N] | replay FILE | list")
		os.Exit(2)
	}
	switch os.Args[1] {
	case "list":
		for _, id := range sim.IDs() {
			fmt.Println(id)
		}
	case "run":
		fs := flag.NewFlagSet("run", flag.ExitOnError)
		prop := fs.String("prop", "", "property id")
		tier := fs.String("tier", "quick", "quick|thorough")
		runs := fs.Int("runs", 0, "override number of runs")
		seed := fs.Uint64("seed", envSeed(), "seed (default VERIF_SEED or 1)")
		fs.Parse(os.Args[2:])
		if t := os.Getenv("VERIF_TIER"); t != "" && *tier == "" {
			*tier = t
		}
		os.Exit(sim.CoordMain(*prop, *tier, *seed, *runs))
	case "replay":
		if len(os.Args) < 3 {
			os.Exit(2)
		}
		os.Exit(sim.ReplayDispatch(os.Args[2]))
	default:
		os.Exit(sim.Dispatch(os.Args[1], os.Args[2:]))
	}
}
