//go:build go1.21

package sim

import (
	"encoding/json"
	"os"
	"path/filepath"
	"sort"
)

func writeEvidence(p *Prop, cs *coordState, tier string, seed uint64, wall float64, nviol int) error {
	cs.mu.Lock()
	defer cs.mu.Unlock()
	samples := []interface{}{}
	for _, s := range cs.agg.Samples {
		samples = append(samples, map[string]interface{}{"run_index": s.Idx, "trace": s.Trace})
	}
	if len(samples) == 0 {
		samples = append(samples, "no non-trivial run was sampled")
	}
	missingF, missingP := []string{}, []string{}
	for _, f := range p.WantFaults {
		if cs.agg.Faults[f] == 0 {
			missingF = append(missingF, f)
		}
	}
	for _, f := range p.WantProbes {
		if cs.agg.Probes[f] == 0 {
			missingP = append(missingP, f)
		}
	}
	sort.Strings(missingF)
	sort.Strings(missingP)
	known := map[string]int{}
	for k, n := range cs.knownN {
		known[k] = n
	}
	runsPerHour := 0.0
	if wall > 0 {
		runsPerHour = float64(cs.agg.Runs) / wall * 3600
	}
	cov := map[string]interface{}{
		"evaluations":               cs.agg.Runs,
		"distinct_nontrivial":       len(cs.sigs),
		"rule":                      p.Rule,
		"samples":                   samples,
		"nontrivial_runs":           cs.agg.NonTriv,
		"runs_per_hour":             int64(runsPerHour),
		"simulated_seconds":         float64(cs.agg.SimNs) / 1e9,
		"scheduler_steps":           cs.agg.Steps,
		"faults_fired":              cs.agg.Faults,
		"probes_hit":                cs.agg.Probes,
		"measured_maxima":           cs.agg.Maxes,
		"faults_never_fired":        missingF,
		"probes_never_hit":          missingP,
		"known_finding_hits":        known,
		"planned_runs":              cs.total,
		"wall_capped":               cs.capped,
		"worker_max_rss_kb":         cs.maxRSSkb,
		"components_real":           p.Real,
		"components_stub":           p.Stub,
		"components_real_unfaulted": p.RealNoFault,
		"exhaustive":                false,
	}
	ev := map[string]interface{}{
		"property_id": p.ID,
		"tier":        tier,
		"seed":        int64(seed),
		"level":       p.Level,
		"coverage":    cov,
		"assumptions": p.Assumptions,
		"wall_s":      wall,
		"violations":  nviol,
	}
	b, err := json.MarshalIndent(ev, "", " ")
	if err != nil {
		return err
	}
	dir := filepath.Join(VerifDir(), "evidence")
	os.MkdirAll(dir, 0o755)
	return os.WriteFile(filepath.Join(dir, p.ID+".json"), b, 0o644)
}
