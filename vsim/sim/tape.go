//go:build go1.21

// Package sim is the deterministic-simulation kernel: choice tape, run context,
// simulated devices, coordinator/worker protocol, replay and minimisation.
// It imports nothing from mp4ff except bits (for the SliceWriter interface).
package sim

import (
	"fmt"
)

// Tape is the single source of every decision in a run. In generation mode values come
// from a splitmix64 PRNG and are recorded; in replay mode they come from the recorded
// list (v mod n) and draws past its end return 0. 0 is always the benign choice.
type Tape struct {
	state   uint64
	rec     []uint32
	replay  []uint32
	replayM bool
	pos     int
	max     int
}

// ErrTapeBudget is raised (as a panic of type HarnessAbort) when a run draws more than max values.
type HarnessAbort struct{ Msg string }

func (h HarnessAbort) Error() string { return "harness abort: " + h.Msg }

const defaultTapeMax = 4 << 20

func splitmix(x *uint64) uint64 {
	*x += 0x9E3779B97F4A7C15
	z := *x
	z = (z ^ (z >> 30)) * 0xBF58476D1CE4E5B9
	z = (z ^ (z >> 27)) * 0x94D049BB133111EB
	return z ^ (z >> 31)
}

// Mix hashes integers into one seed.
func Mix(vs ...uint64) uint64 {
	var s uint64 = 0x243F6A8885A308D3
	for _, v := range vs {
		s ^= v
		_ = splitmix(&s)
		s = s*0x9E3779B97F4A7C15 + 0x1234567
	}
	return splitmix(&s)
}

// HashString is FNV-1a 64.
func HashString(s string) uint64 {
	var h uint64 = 14695981039346656037
	for i := 0; i < len(s); i++ {
		h ^= uint64(s[i])
		h *= 1099511628211
	}
	return h
}

// NewTape creates a generating tape.
func NewTape(seed uint64) *Tape {
	return &Tape{state: seed, max: defaultTapeMax}
}

// ReplayTape creates a tape that replays recorded values.
func ReplayTape(vals []uint32) *Tape {
	return &Tape{replay: vals, replayM: true, max: defaultTapeMax}
}

// Draw returns a value in [0,n). n<=1 returns 0 without consuming the tape.
func (t *Tape) Draw(n int) int {
	if n <= 1 {
		return 0
	}
	if len(t.rec) >= t.max {
		panic(HarnessAbort{fmt.Sprintf("tape budget of %d draws exceeded", t.max)})
	}
	var v uint32
	if t.replayM {
		if t.pos < len(t.replay) {
			v = t.replay[t.pos] % uint32(n)
		}
		t.pos++
	} else {
		v = uint32(splitmix(&t.state) % uint64(n))
	}
	t.rec = append(t.rec, v)
	return int(v)
}

// Recorded returns the values consumed so far.
func (t *Tape) Recorded() []uint32 { return t.rec }

// Chance returns true with probability permille/1000; a zero on the tape means false.
func (t *Tape) Chance(permille int) bool {
	if permille <= 0 {
		return false
	}
	return t.Draw(1000) >= 1000-permille
}

// Range returns a value in [lo,hi] (inclusive); zero on the tape means lo.
func (t *Tape) Range(lo, hi int) int {
	if hi <= lo {
		return lo
	}
	return lo + t.Draw(hi-lo+1)
}

// Bool is a fair coin; zero on the tape means false.
func (t *Tape) Bool() bool { return t.Draw(2) == 1 }

// Sub returns a private PRNG seeded from one tape draw, for bulk content that should not
// occupy the tape (payload bytes).
func (t *Tape) Sub() *Rand {
	a := uint64(t.Draw(1 << 30))
	return &Rand{s: Mix(a, 0x5eed)}
}

// Rand is a tiny PRNG for bulk content.
type Rand struct{ s uint64 }

func NewRand(seed uint64) *Rand { return &Rand{s: seed} }
func (r *Rand) U64() uint64     { return splitmix(&r.s) }
func (r *Rand) Intn(n int) int {
	if n <= 1 {
		return 0
	}
	return int(splitmix(&r.s) % uint64(n))
}
func (r *Rand) Fill(b []byte) {
	for i := 0; i < len(b); {
		v := splitmix(&r.s)
		for k := 0; k < 8 && i < len(b); k++ {
			b[i] = byte(v)
			v >>= 8
			i++
		}
	}
}
