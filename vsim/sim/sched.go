//go:build go1.21

package sim

import (
	"fmt"
	"os"
	"runtime"
	"sort"
	"strings"
	"sync"
)

// Sched is the deterministic task scheduler for simulated caller goroutines.
//
// Tasks are real goroutines that are parked and released ONE AT A TIME; the scheduler alone
// (from tape draws made by the coordinator goroutine) decides who proceeds at every step boundary.
// The hand-off is a baton word read and written only inside //go:norace functions (spin +
// runtime.Gosched): it is invisible to the race detector, so under -race the tasks are exactly
// serialised and replayable, yet the detector regards them as unordered and reports any conflicting
// pair of accesses between them regardless of wall-clock overlap.
type Sched struct {
	baton   int32
	cur     int32   // task holding the baton (written by the coordinator before the hand-over)
	done    []int32 // per task: 1 once its script has ended
	wg      sync.WaitGroup
	Isolate bool // empty all sync.Pools before every step (see RunTasks)
	// MaxYields bounds the number of in-step yields (I/O points) honoured per task; further Yield calls return at once
	MaxYields int
	yields    []int32
}

//go:norace
func (s *Sched) give(to int32) { s.baton = to }

//go:norace
func (s *Sched) waitFor(me int32) {
	for s.baton != me {
		runtime.Gosched()
	}
}

//go:norace
func (s *Sched) setCur(id int32) { s.cur = id }

// Yield is a scheduling point INSIDE a step (an I/O point: the simulated device calls it from Read/Write/Seek): the
// running task hands the baton back and continues only when the scheduler picks it again. It is a no-op outside
// RunTasks (solo executions) and once the task has used up its yield budget.
//
//go:norace
func (s *Sched) Yield() {
	if s == nil || s.cur == 0 || s.done == nil {
		return
	}
	id := s.cur
	if s.MaxYields > 0 && s.yields[id-1] >= int32(s.MaxYields) {
		return
	}
	s.yields[id-1]++
	s.baton = 0
	for s.baton != id {
		runtime.Gosched()
	}
}

// RunTasks executes the given scripts (one slice of steps per task) under the seeded schedule.
// choose(runnable) returns the index (into runnable) of the task to release next; it is called at every scheduling
// point: step boundaries and in-step yields. The returned schedule lists the task ids in execution order.
func (s *Sched) RunTasks(scripts [][]func(), choose func(runnable []int) int) []int {
	n := len(scripts)
	s.baton = 0
	s.done = make([]int32, n)
	s.yields = make([]int32, n)
	for id := 1; id <= n; id++ {
		s.wg.Add(1)
		go func(id int32, steps []func()) {
			defer s.wg.Done()
			for _, st := range steps {
				s.waitFor(id)
				st()
				s.give(0)
			}
		}(int32(id), scripts[id-1])
	}
	left := make([]int, n) // steps not yet completed
	for i, sc := range scripts {
		left[i] = len(sc)
	}
	inStep := make([]bool, n) // the task yielded inside a step and must be resumed before its step count drops
	var order []int
	for {
		var runnable []int
		for i := range left {
			if left[i] > 0 {
				runnable = append(runnable, i)
			}
		}
		if len(runnable) == 0 {
			break
		}
		pick := runnable[choose(runnable)]
		order = append(order, pick)
		if s.Isolate && !inStep[pick] {
			// sync.Pool (used by fmt and others) carries race-detector happens-before edges from the goroutine that
			// Puts an object to the one that Gets it; between serialised steps that would order the tasks and hide
			// their races, and which task gets which pooled object is not decided by the tape. Two collections empty
			// every pool (local caches -> victim caches -> dropped), so no step can inherit an object from another task.
			runtime.GC()
			runtime.GC()
		}
		before := s.yieldCount(pick)
		s.setCur(int32(pick + 1))
		s.give(int32(pick + 1))
		s.waitFor(0)
		if s.yieldCount(pick) != before {
			inStep[pick] = true // came back through Yield: same step continues next time
		} else {
			inStep[pick] = false
			left[pick]--
		}
	}
	s.setCur(0)
	s.wg.Wait() // only now a real synchronisation: everything the tasks wrote is visible to the caller
	return order
}

//go:norace
func (s *Sched) yieldCount(i int) int32 { return s.yields[i] }

// ---- race detector log

// RaceReport is one parsed "WARNING: DATA RACE" block.
type RaceReport struct {
	Funcs   []string // top mp4ff (non-harness) function of each of the two access stacks
	Harness bool     // no mp4ff frame in either access stack
	Text    string
}

// Class is the sorted pair of top repo functions.
func (rr RaceReport) Class() string {
	f := append([]string(nil), rr.Funcs...)
	sort.Strings(f)
	return "race:" + strings.Join(f, "|")
}

var raceLogOff int64

// RaceLogPath returns the file the race runtime writes to (GORACE log_path + "." + pid), or "".
func RaceLogPath() string {
	for _, kv := range strings.Fields(os.Getenv("GORACE")) {
		if strings.HasPrefix(kv, "log_path=") {
			return fmt.Sprintf("%s.%d", strings.TrimPrefix(kv, "log_path="), os.Getpid())
		}
	}
	return ""
}

// NewRaceReports parses what the race detector wrote since the last call.
func NewRaceReports() []RaceReport {
	p := RaceLogPath()
	if p == "" {
		return nil
	}
	b, err := os.ReadFile(p)
	if err != nil || int64(len(b)) <= raceLogOff {
		return nil
	}
	txt := string(b[raceLogOff:])
	raceLogOff = int64(len(b))
	var out []RaceReport
	for _, blk := range strings.Split(txt, "WARNING: DATA RACE") {
		if !strings.Contains(blk, " by goroutine ") && !strings.Contains(blk, "by main goroutine") {
			continue
		}
		rr := RaceReport{Text: "WARNING: DATA RACE" + blk}
		if len(rr.Text) > 6000 {
			rr.Text = rr.Text[:6000]
		}
		// the two access stacks are the first two paragraphs that start with an access line
		paras := strings.Split(blk, "\n\n")
		for _, pa := range paras {
			first := strings.TrimSpace(strings.SplitN(strings.TrimSpace(pa), "\n", 2)[0])
			if !(strings.Contains(first, " at 0x") && strings.Contains(first, " by ")) {
				continue
			}
			fn := ""
			for _, ln := range strings.Split(pa, "\n")[1:] {
				ln = strings.TrimSpace(ln)
				if !strings.HasPrefix(ln, "github.com/Eyevinn/mp4ff/") || IsHarnessFrame(ln) {
					continue
				}
				if i := strings.LastIndex(ln, "("); i > 0 {
					ln = ln[:i]
				}
				fn = strings.TrimPrefix(ln, "github.com/Eyevinn/mp4ff/")
				break
			}
			if fn != "" {
				rr.Funcs = append(rr.Funcs, fn)
			}
		}
		rr.Harness = len(rr.Funcs) == 0
		out = append(out, rr)
	}
	return out
}

// RaceEnabled reports whether this binary was built with -race (set by a build-tagged file).
var RaceEnabled = false
