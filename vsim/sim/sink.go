//go:build go1.21

package sim

import (
	"github.com/Eyevinn/mp4ff/bits"
)

// Sink is a recording io.Writer with write faults: error at write op k, device full after b bytes.
// A short write without an error is outside the io.Writer contract and is never produced.
type Sink struct {
	Buf      []byte
	Writes   int
	Bounds   []int // cumulative byte count after each successful write (write boundaries)
	FailAtOp int   // fail the k-th Write (1-based) accepting nothing; 0 = never
	Capacity int   // device full after this many bytes (n<len(p), ErrDiskFull); <0 = unlimited
	Failed   bool
	r        *Run
	Discard  bool // count only (for Info output)
	N        int
	KeepB    bool
}

// NewSink creates a fault-free recording sink.
func NewSink(r *Run) *Sink { return &Sink{Capacity: -1, r: r} }

func (s *Sink) Write(p []byte) (int, error) {
	s.Writes++
	if s.FailAtOp > 0 && s.Writes == s.FailAtOp {
		s.Failed = true
		if s.r != nil {
			s.r.Fault("write-eio")
		}
		return 0, ErrInjected
	}
	if s.Capacity >= 0 && s.N+len(p) > s.Capacity {
		n := s.Capacity - s.N
		if n < 0 {
			n = 0
		}
		s.accept(p[:n])
		s.Failed = true
		if s.r != nil {
			s.r.Fault("write-full")
		}
		return n, ErrDiskFull
	}
	s.accept(p)
	if s.KeepB {
		s.Bounds = append(s.Bounds, s.N)
	}
	return len(p), nil
}

func (s *Sink) accept(p []byte) {
	if !s.Discard {
		s.Buf = append(s.Buf, p...)
	}
	s.N += len(p)
}

// Reset clears recorded state but keeps the fault configuration.
func (s *Sink) Reset() {
	s.Buf = s.Buf[:0]
	s.N = 0
	s.Writes = 0
	s.Failed = false
	s.Bounds = s.Bounds[:0]
}

// FaultSliceWriter is the real bits.FixedSliceWriter behind the bits.SliceWriter interface,
// with a capacity chosen by the simulator (a "device" that is exactly as large as decided).
// It also counts calls so that a run signature can tell histories apart.
type FaultSliceWriter struct {
	*bits.FixedSliceWriter
}

// NewFaultSliceWriter creates a slice writer with the given capacity.
func NewFaultSliceWriter(capacity int) *FaultSliceWriter {
	if capacity < 0 {
		capacity = 0
	}
	// the caller's buffer is a reused one: whatever an encoder does not write stays as it was (0xA5), so an encoder
	// that relies on fresh zeroed memory shows as a byte difference against the io.Writer path
	buf := make([]byte, capacity)
	for i := range buf {
		buf[i] = 0xa5
	}
	return &FaultSliceWriter{bits.NewFixedSliceWriterFromSlice(buf)}
}

var _ bits.SliceWriter = (*FaultSliceWriter)(nil)
