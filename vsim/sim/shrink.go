//go:build go1.21

package sim

import (
	"encoding/json"
	"fmt"
	"os"
	"time"
)

// Shrink minimises a failing tape by delta debugging while the same violation class persists:
// truncate the tail, delete blocks, zero entries, halve/decrement values. Because 0 is always the
// benign choice and draws past the end return 0, every step can only simplify the run.
func Shrink(p *Prop, idx int, tape []uint32, class string, kf *KnownFindings, budget time.Duration) ([]uint32, int) {
	deadline := time.Now().Add(budget)
	tries := 0
	fails := func(c []uint32) bool {
		tries++
		att := p.Attempts
		if att > 2 {
			att = 2 // candidates that do not fail cost every attempt: keep minimisation affordable
		}
		res := executeRetryN(p, idx, c, kf, false, att)
		return res.Abort == "" && len(res.Run.Viol) > 0 && res.Run.Viol[0].Class == class
	}
	cur := append([]uint32(nil), tape...)
	// canonical: drop trailing zeros (draws past the end are zero anyway)
	trim := func(c []uint32) []uint32 {
		for len(c) > 0 && c[len(c)-1] == 0 {
			c = c[:len(c)-1]
		}
		return c
	}
	cur = trim(cur)
	if !fails(cur) {
		return tape, tries // not reproducible through replay: keep original
	}
	improved := true
	for improved && time.Now().Before(deadline) {
		improved = false
		// 1. truncate tail (binary search on prefix length)
		lo, hi := 0, len(cur)
		for lo < hi && time.Now().Before(deadline) {
			mid := (lo + hi) / 2
			if fails(cur[:mid]) {
				hi = mid
			} else {
				lo = mid + 1
			}
		}
		if hi < len(cur) && fails(cur[:hi]) {
			cur = trim(append([]uint32(nil), cur[:hi]...))
			improved = true
		}
		// 2. delete blocks
		for size := len(cur) / 2; size >= 1 && time.Now().Before(deadline); size /= 2 {
			for start := 0; start+size <= len(cur) && time.Now().Before(deadline); {
				cand := append(append([]uint32(nil), cur[:start]...), cur[start+size:]...)
				if fails(cand) {
					cur = trim(cand)
					improved = true
				} else {
					start += size
				}
			}
		}
		// 3. zero blocks, then single entries
		for size := len(cur) / 2; size >= 1 && time.Now().Before(deadline); size /= 2 {
			for start := 0; start+size <= len(cur) && time.Now().Before(deadline); start += size {
				allZero := true
				for _, v := range cur[start : start+size] {
					if v != 0 {
						allZero = false
						break
					}
				}
				if allZero {
					continue
				}
				cand := append([]uint32(nil), cur...)
				for i := start; i < start+size; i++ {
					cand[i] = 0
				}
				if fails(cand) {
					cur = trim(cand)
					improved = true
					if start+size > len(cur) {
						break
					}
				}
			}
		}
		// 4. reduce values
		for i := 0; i < len(cur) && time.Now().Before(deadline); i++ {
			for cur[i] > 0 && time.Now().Before(deadline) {
				cand := append([]uint32(nil), cur...)
				cand[i] = cur[i] / 2
				if fails(cand) {
					cur = cand
					improved = true
					continue
				}
				cand[i] = cur[i] - 1
				if cur[i] > 1 && fails(cand) {
					cur = cand
					improved = true
					continue
				}
				break
			}
		}
		cur = trim(cur)
	}
	return cur, tries
}

// ShrinkMain minimises replay file `in` and writes `out`.
func ShrinkMain(in, out string, budget time.Duration) int {
	b, err := os.ReadFile(in)
	if err != nil {
		fmt.Fprintln(os.Stderr, err)
		return 2
	}
	var rf ReplayFile
	if err := json.Unmarshal(b, &rf); err != nil {
		fmt.Fprintln(os.Stderr, err)
		return 2
	}
	p := Lookup(rf.Property)
	if p == nil {
		return 2
	}
	setMemLimit(p)
	if p.Setup != nil {
		if err := p.Setup(); err != nil {
			fmt.Fprintln(os.Stderr, err)
			return 2
		}
	}
	kf, _ := LoadKnown(VerifDir() + "/known_findings.json")
	kf = kf.Without(p.ID, rf.Violation)
	min, tries := Shrink(p, rf.RunIndex, rf.Tape, rf.Violation.Class, kf, budget)
	res := ExecuteRetry(p, rf.RunIndex, min, kf, true)
	if len(res.Run.Viol) == 0 || res.Run.Viol[0].Class != rf.Violation.Class {
		fmt.Fprintln(os.Stderr, "shrink: minimised tape does not reproduce; keeping original")
		return 3
	}
	rf2 := rf
	rf2.OrigLen = len(rf.Tape)
	rf2.Tape = min
	rf2.Trace = res.Run.Trace
	rf2.Violation = res.Run.Viol[0]
	rf2.Minimised = true
	rf2.Note = fmt.Sprintf("minimised from %d to %d tape entries in %d executions", len(rf.Tape), len(min), tries)
	ob, _ := json.MarshalIndent(rf2, "", " ")
	if err := os.WriteFile(out, ob, 0o644); err != nil {
		fmt.Fprintln(os.Stderr, err)
		return 2
	}
	return 0
}
