//go:build go1.21

package sim

import (
	"errors"
	"io"
)

// ErrInjected is the I/O error returned by injected read/seek/write faults.
var ErrInjected = errors.New("vsim: injected I/O error")

// ErrDiskFull is returned by a sink whose byte budget is exhausted.
var ErrDiskFull = errors.New("vsim: device full")

// ReadCfg is the per-handle delivery and fault configuration (drawn per run: swarm).
type ReadCfg struct {
	Short     int // permille of reads that are short (n < len(p), nil)
	Zero      int // permille of reads preceded by a (0,nil) read; runs are bounded by MaxZero
	MaxZero   int
	DataEOF   bool  // deliver the final bytes of the file together with io.EOF
	ErrAtOp   int   // fail the k-th Read (1-based) with ErrInjected; 0 = never
	ErrPart   bool  // the failing read first delivers some bytes (n>0, err) - legal for io.Reader
	SeekErrAt int   // fail the k-th Seek; 0 = never
	TruncAt   int64 // file appears to end here (crash of the writer); <0 = whole file
	MaxChunk  int   // upper bound on bytes per read (0 = unlimited); models device block size
	LatNs     int64 // per-op latency for virtual time
	NsPerByte int64
}

// Handle is a simulated open file on the SimDisk: io.ReadSeeker with seeded delivery/faults.
type Handle struct {
	Name    string
	data    []byte
	pos     int64
	cfg     ReadCfg
	r       *Run
	Reads   int
	Seeks   int
	zeroRun int
	Failed  bool // an injected error has been returned
	BytesRd int64
}

// NewHandle opens a file image.
func NewHandle(r *Run, name string, data []byte, cfg ReadCfg) *Handle {
	if cfg.TruncAt >= 0 && cfg.TruncAt < int64(len(data)) {
		data = data[:cfg.TruncAt]
		r.Fault("disk-truncated")
	}
	return &Handle{Name: name, data: data, cfg: cfg, r: r}
}

// PlainCfg is fault-free, full delivery.
func PlainCfg() ReadCfg { return ReadCfg{TruncAt: -1} }

// Len returns the length of the (possibly truncated) file image.
func (h *Handle) Len() int64 { return int64(len(h.data)) }

// Pos returns the current position.
func (h *Handle) Pos() int64 { return h.pos }

func (h *Handle) Read(p []byte) (int, error) {
	h.Reads++
	h.r.Advance(h.cfg.LatNs)
	if h.cfg.ErrAtOp > 0 && h.Reads == h.cfg.ErrAtOp {
		h.Failed = true
		h.r.Fault("read-eio")
		n := 0
		if h.cfg.ErrPart && len(p) > 1 && h.pos < int64(len(h.data)) {
			n = 1 + h.r.T.Draw(min(len(p)-1, int(int64(len(h.data))-h.pos)))
			n = copy(p[:n], h.data[h.pos:])
			h.pos += int64(n)
		}
		h.r.Logf("disk %s read#%d len=%d -> %d, EIO", h.Name, h.Reads, len(p), n)
		return n, ErrInjected
	}
	if len(p) == 0 {
		return 0, nil
	}
	if h.pos >= int64(len(h.data)) {
		return 0, io.EOF
	}
	if h.cfg.Zero > 0 && h.zeroRun < h.cfg.MaxZero && h.r.T.Chance(h.cfg.Zero) {
		h.zeroRun++
		h.r.Fault("read-zero")
		return 0, nil
	}
	h.zeroRun = 0
	avail := int(int64(len(h.data)) - h.pos)
	n := len(p)
	if n > avail {
		n = avail
	}
	if h.cfg.MaxChunk > 0 && n > h.cfg.MaxChunk {
		n = h.cfg.MaxChunk
		h.r.Probe("read-chunk-capped")
	}
	if h.cfg.Short > 0 && n > 1 && h.r.T.Chance(h.cfg.Short) {
		n = 1 + h.r.T.Draw(n-1)
		h.r.Fault("read-short")
	}
	copy(p[:n], h.data[h.pos:])
	h.pos += int64(n)
	h.BytesRd += int64(n)
	h.r.Advance(int64(n) * h.cfg.NsPerByte)
	h.r.Event("rd", n&0xff)
	if h.cfg.DataEOF && h.pos == int64(len(h.data)) {
		h.r.Fault("read-data+eof")
		return n, io.EOF
	}
	return n, nil
}

func (h *Handle) Seek(off int64, whence int) (int64, error) {
	h.Seeks++
	h.r.Advance(h.cfg.LatNs)
	if h.cfg.SeekErrAt > 0 && h.Seeks == h.cfg.SeekErrAt {
		h.Failed = true
		h.r.Fault("seek-eio")
		h.r.Logf("disk %s seek#%d -> EIO", h.Name, h.Seeks)
		return h.pos, ErrInjected
	}
	var np int64
	switch whence {
	case io.SeekStart:
		np = off
	case io.SeekCurrent:
		np = h.pos + off
	case io.SeekEnd:
		np = int64(len(h.data)) + off
	default:
		return h.pos, errors.New("vsim: bad whence")
	}
	if np < 0 {
		return h.pos, errors.New("vsim: negative seek position")
	}
	h.pos = np
	h.r.Event("sk", whence)
	return np, nil
}

// StreamReader hides Seek so that only the io.Reader side of a handle is visible.
type StreamReader struct{ H *Handle }

func (s StreamReader) Read(p []byte) (int, error) { return s.H.Read(p) }

// DrawDelivery draws a legal (fault-free) delivery configuration: short reads, zero reads,
// data+EOF, chunk caps. Nothing here may make a correct consumer fail.
func DrawDelivery(t *Tape) ReadCfg {
	c := PlainCfg()
	c.LatNs = int64(1000 * (1 + t.Draw(100)))
	c.NsPerByte = int64(1 + t.Draw(20))
	switch t.Draw(5) {
	case 0: // plain
	case 1:
		c.Short = 50 + t.Draw(400)
	case 2:
		c.Short = 900
		c.MaxChunk = 1 + t.Draw(16)
	case 3:
		c.Short = t.Draw(300)
		c.Zero = 20 + t.Draw(200)
		c.MaxZero = 1 + t.Draw(3)
	case 4:
		c.MaxChunk = []int{1, 2, 3, 7, 8, 9, 15, 16, 17, 511, 512, 513, 4096}[t.Draw(13)]
	}
	if t.Chance(300) {
		c.DataEOF = true
	}
	return c
}
