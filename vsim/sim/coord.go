//go:build go1.21

package sim

import (
	"bufio"
	"bytes"
	"crypto/sha256"
	"encoding/hex"
	"encoding/json"
	"fmt"
	"io"
	"os"
	"os/exec"
	"path/filepath"
	"runtime"
	"sort"
	"strconv"
	"strings"
	"sync"
	"time"
)

// workerCmd builds the command line of a worker-type process for property p.
// mode is "worker", "replay" or "shrink"; args are mode-specific.
func workerCmd(p *Prop, mode string, args ...string) *exec.Cmd {
	bin := filepath.Join(VerifDir(), "bin")
	var cmd *exec.Cmd
	switch {
	case p.Tool != "":
		cmd = exec.Command(filepath.Join(bin, p.Tool+".test"), "-test.run", "^TestVsimEntry$", "-test.timeout", "0", "-test.count", "1")
		cmd.Env = append(os.Environ(), "VSIM_MODE="+mode, "VSIM_ARGS="+strings.Join(args, "\x1f"))
	case p.Race:
		cmd = exec.Command(filepath.Join(bin, "vsim-race"), append([]string{mode}, args...)...)
		os.MkdirAll(filepath.Join(VerifDir(), "build", "race"), 0o755)
		cmd.Env = append(os.Environ(), "GOMAXPROCS=2",
			"GORACE=halt_on_error=0 exitcode=0 history_size=7 suppress_equal_stacks=0 suppress_equal_addresses=0 log_path="+filepath.Join(VerifDir(), "build", "race", mode))
	default:
		cmd = exec.Command(filepath.Join(bin, "vsim"), append([]string{mode}, args...)...)
		cmd.Env = os.Environ()
	}
	return cmd
}

// ToolEntry is called from TestVsimEntry in tool harness test binaries.
func ToolEntry() int {
	mode := os.Getenv("VSIM_MODE")
	if mode == "" {
		return -1
	}
	args := strings.Split(os.Getenv("VSIM_ARGS"), "\x1f")
	return Dispatch(mode, args)
}

// Dispatch runs a worker-type mode.
func Dispatch(mode string, args []string) int {
	switch mode {
	case "worker":
		seed, _ := strconv.ParseUint(args[1], 10, 64)
		return WorkerMain(args[0], seed)
	case "replay-local":
		return ReplayMain(args[0])
	case "shrink-local":
		d, _ := time.ParseDuration(args[2])
		return ShrinkMain(args[0], args[1], d)
	case "runidx": // execute one run index from its seed (hang/fatal confirmation); prints class if violated
		seed, _ := strconv.ParseUint(args[1], 10, 64)
		idx, _ := strconv.Atoi(args[2])
		p := Lookup(args[0])
		if p == nil {
			return 2
		}
		setMemLimit(p)
		if p.Setup != nil {
			if err := p.Setup(); err != nil {
				return 2
			}
		}
		kf, _ := LoadKnown(VerifDir() + "/known_findings.json")
		res := Execute(p, idx, NewTape(RunSeed(seed, p.ID, idx)), kf, false)
		if len(res.Run.Viol) > 0 {
			fmt.Printf("violation %s\n", res.Run.Viol[0].Class)
		}
		return 0
	}
	fmt.Fprintf(os.Stderr, "unknown mode %q\n", mode)
	return 2
}

type worker struct {
	id      int
	cmd     *exec.Cmd
	stdin   io.WriteCloser
	stderr  *bytes.Buffer
	mu      sync.Mutex
	curIdx  int
	lastBeg time.Time
	busy    bool
	from    int
	to      int
	dead    bool
}

type coordState struct {
	mu       sync.Mutex
	next     int
	total    int
	batch    int
	stopAt   time.Time
	capped   bool
	agg      wireBatch
	sigs     map[uint64]struct{}
	viols    []wireViol
	knowns   map[string]wireKnown // class -> first hit
	knownN   map[string]int
	nondet   []string
	harness  []string // harness trouble messages (exit 2)
	extra    []ReplayFile
	maxRSSkb int64
	redo     [][2]int
	retries  map[int]int
	notes    []string
	runSigs  map[uint64]uint64
}

func (c *coordState) take() (int, int, bool) {
	c.mu.Lock()
	defer c.mu.Unlock()
	// a confirmed hang or worker death that counts as a violation ends the search: every further run of the same
	// kind would cost three fresh-process confirmations with growing wall budgets
	for _, rf := range c.extra {
		if rf.Kind == "hang" || rf.Kind == "fatal" {
			return 0, 0, false
		}
	}
	if len(c.redo) > 0 {
		r := c.redo[0]
		c.redo = c.redo[1:]
		return r[0], r[1], true
	}
	if c.next >= c.total {
		return 0, 0, false
	}
	if time.Now().After(c.stopAt) {
		c.capped = true
		return 0, 0, false
	}
	// stop early once several distinct unknown violation classes were collected
	classes := map[string]bool{}
	for _, v := range c.viols {
		classes[v.V.Class] = true
	}
	if len(classes) >= 4 {
		return 0, 0, false
	}
	from := c.next
	to := from + c.batch
	if to > c.total {
		to = c.total
	}
	c.next = to
	return from, to, true
}

// CoordMain runs a whole check: spawns workers, aggregates, minimises, writes evidence.
func CoordMain(propID, tier string, seed uint64, runsOverride int) int {
	start := time.Now()
	p := Lookup(propID)
	if p == nil {
		fmt.Fprintf(os.Stderr, "unknown property %s\n", propID)
		return 2
	}
	kf, err := LoadKnown(VerifDir() + "/known_findings.json")
	if err != nil {
		fmt.Fprintf(os.Stderr, "known findings: %v\n", err)
		return 2
	}
	total := p.Runs[tier]
	if runsOverride > 0 {
		total = runsOverride
	}
	if total <= 0 {
		fmt.Fprintf(os.Stderr, "no run count for tier %s\n", tier)
		return 2
	}
	nw := runtime.NumCPU()
	if s := os.Getenv("VERIF_WORKERS"); s != "" {
		if n, err := strconv.Atoi(s); err == nil && n > 0 {
			nw = n
		}
	}
	if nw > total {
		nw = total
	}
	wallCap := p.WallCap[tier]
	if wallCap == 0 {
		wallCap = 6 * time.Hour
	}
	batch := total / (nw * 16)
	if batch < 1 {
		batch = 1
	}
	if batch > 256 {
		batch = 256
	}
	hang := p.HangBudget
	if hang == 0 {
		hang = 60 * time.Second
	}
	if p.Race {
		os.RemoveAll(filepath.Join(VerifDir(), "build", "race"))
	}
	fmt.Printf("vsim: property=%s tier=%s seed=%d runs=%d workers=%d batch=%d\n", propID, tier, seed, total, nw, batch)
	cs := &coordState{total: total, batch: batch, stopAt: start.Add(wallCap), sigs: map[uint64]struct{}{},
		knowns: map[string]wireKnown{}, knownN: map[string]int{},
		agg: wireBatch{Faults: map[string]int{}, Probes: map[string]int{}, Maxes: map[string]int64{}}}

	var wg sync.WaitGroup
	for i := 0; i < nw; i++ {
		wg.Add(1)
		go func(id int) {
			defer wg.Done()
			runWorker(cs, p, id, seed, hang)
		}(i)
	}
	wg.Wait()

	// ---- violations: write replay files, minimise, verify replay in a fresh process
	exit := 0
	os.MkdirAll(filepath.Join(VerifDir(), "replays"), 0o755)
	seenClass := map[string]bool{}
	sort.Slice(cs.viols, func(i, j int) bool { return cs.viols[i].Idx < cs.viols[j].Idx })
	var violLines []string
	for _, v := range cs.viols {
		if seenClass[v.V.Class] {
			continue
		}
		seenClass[v.V.Class] = true
		rf := ReplayFile{Property: propID, Seed: seed, RunIndex: v.Idx, Violation: v.V, Tape: v.Tape, Trace: v.Trace}
		h := sha256.Sum256([]byte(fmt.Sprint(propID, v.V.Class, seed, v.Idx)))
		base := filepath.Join(VerifDir(), "replays", fmt.Sprintf("%s-%s", propID, hex.EncodeToString(h[:5])))
		orig := base + ".orig.json"
		ob, _ := json.MarshalIndent(rf, "", " ")
		os.WriteFile(orig, ob, 0o644)
		if !v.Det {
			// The worker could not repeat the violation from the same tape in the same process. A run whose outcome depends
			// on what the process did before (state the code under test keeps between calls) behaves like that; a fresh
			// process per replay is the contract of a replay file, so that is what decides: reproduced there = a real,
			// replayable violation (reported unminimised), not reproduced = the harness is not deterministic.
			rp := workerCmd(p, "replay-local", orig)
			out, _ := rp.CombinedOutput()
			if rp.ProcessState.ExitCode() != 1 {
				os.Remove(orig)
				cs.harness = append(cs.harness, fmt.Sprintf("run %d: violation %s did not reproduce from its own tape, neither in the worker nor in a fresh process (nondeterminism in harness): %s", v.Idx, v.V.Class, lastLines(string(out), 3)))
				continue
			}
			violLines = append(violLines, fmt.Sprintf("VIOLATION property=%s replay=%s", propID, orig))
			fmt.Printf("violation: run=%d class=%s\n  (reproduces in a fresh process only: the outcome depends on process-lifetime state)\n  %s\n", v.Idx, v.V.Class, v.V.Msg)
			exit = 1
			continue
		}
		minPath := base + ".json"
		sh := workerCmd(p, "shrink-local", orig, minPath, "90s")
		sh.Stdout = io.Discard
		var shErr bytes.Buffer
		sh.Stderr = &shErr
		done := make(chan error, 1)
		go func() { done <- sh.Run() }()
		report := orig
		select {
		case err := <-done:
			if err == nil {
				report = minPath
			}
		case <-time.After(180 * time.Second):
			sh.Process.Kill()
		}
		// confirm the replay reproduces in a fresh process
		rp := workerCmd(p, "replay-local", report)
		out, _ := rp.CombinedOutput()
		code := rp.ProcessState.ExitCode()
		if code != 1 {
			cs.harness = append(cs.harness, fmt.Sprintf("replay of %s did not reproduce (exit %d): %s", report, code, lastLines(string(out), 5)))
			continue
		}
		violLines = append(violLines, fmt.Sprintf("VIOLATION property=%s replay=%s", propID, report))
		fmt.Printf("violation: run=%d class=%s\n  %s\n", v.Idx, v.V.Class, v.V.Msg)
		exit = 1
	}
	for _, rf := range cs.extra { // hangs and fatal crashes
		h := sha256.Sum256([]byte(fmt.Sprint(propID, rf.Violation.Class, seed, rf.RunIndex)))
		path := filepath.Join(VerifDir(), "replays", fmt.Sprintf("%s-%s.json", propID, hex.EncodeToString(h[:5])))
		ob, _ := json.MarshalIndent(rf, "", " ")
		os.WriteFile(path, ob, 0o644)
		if kf.Match(propID, rf.Violation) != nil {
			cs.knownN[rf.Violation.Class]++
			cs.knowns[rf.Violation.Class] = wireKnown{rf.RunIndex, rf.Violation}
			continue
		}
		violLines = append(violLines, fmt.Sprintf("VIOLATION property=%s replay=%s", propID, path))
		fmt.Printf("violation: run=%d class=%s\n  %s\n", rf.RunIndex, rf.Violation.Class, rf.Violation.Msg)
		exit = 1
	}
	// ---- known findings
	kclasses := make([]string, 0, len(cs.knowns))
	for k := range cs.knowns {
		kclasses = append(kclasses, k)
	}
	sort.Strings(kclasses)
	for _, k := range kclasses {
		w := cs.knowns[k]
		f := kf.Match(propID, w.V)
		what := w.V.Msg
		if f != nil {
			what = f.What
		}
		fmt.Printf("KNOWN-FINDING: property=%s class=%s hits=%d first_run=%d %s\n", propID, k, cs.knownN[k], w.Idx, what)
	}
	for _, l := range violLines {
		fmt.Println(l)
	}
	if len(cs.agg.Aborts) > 0 {
		for i, a := range cs.agg.Aborts {
			if i < 5 {
				cs.harness = append(cs.harness, "abort: "+a)
			}
		}
	}
	if cs.agg.Runs < total && !cs.capped && len(cs.viols) == 0 && len(cs.extra) == 0 && len(cs.harness) == 0 {
		cs.harness = append(cs.harness, fmt.Sprintf("only %d of %d planned runs were executed", cs.agg.Runs, total))
	}
	wall := time.Since(start).Seconds()
	if digestMode {
		// determinism self-test runs are not property checks: they leave the evidence files alone
	} else if err := writeEvidence(p, cs, tier, seed, wall, len(violLines)); err != nil {
		cs.harness = append(cs.harness, "evidence: "+err.Error())
	}
	for _, n := range cs.notes {
		fmt.Printf("NOTE: %s\n", n)
	}
	if len(cs.harness) > 0 {
		seenH := map[string]bool{}
		for _, h := range cs.harness {
			if seenH[h] {
				continue
			}
			seenH[h] = true
			fmt.Fprintf(os.Stderr, "HARNESS-TROUBLE: %s\n", h)
		}
		if exit == 0 {
			exit = 2
		}
	}
	if digestMode {
		idxs := make([]uint64, 0, len(cs.runSigs))
		for k := range cs.runSigs {
			idxs = append(idxs, k)
		}
		sort.Slice(idxs, func(i, j int) bool { return idxs[i] < idxs[j] })
		hh := sha256.New()
		for _, k := range idxs {
			fmt.Fprintf(hh, "%d:%d;", k, cs.runSigs[k])
		}
		fmt.Printf("DIGEST property=%s runs=%d %x\n", propID, len(idxs), hh.Sum(nil)[:12])
	}
	fmt.Printf("vsim: property=%s runs=%d nontrivial-distinct=%d violations=%d known-classes=%d wall=%.1fs exit=%d\n",
		propID, cs.agg.Runs, len(cs.sigs), len(violLines), len(kclasses), wall, exit)
	return exit
}

func lastLines(s string, n int) string {
	ls := strings.Split(strings.TrimSpace(s), "\n")
	if len(ls) > n {
		ls = ls[len(ls)-n:]
	}
	return strings.Join(ls, " | ")
}

func runWorker(cs *coordState, p *Prop, id int, seed uint64, hang time.Duration) {
	for restarts := 0; restarts < 50; restarts++ {
		again := serveWorker(cs, p, id, seed, hang)
		if !again {
			return
		}
	}
	cs.mu.Lock()
	cs.harness = append(cs.harness, fmt.Sprintf("worker %d restarted too often", id))
	cs.mu.Unlock()
}

// serveWorker runs one worker process until there is no more work. Returns true if the
// worker died/hung and a replacement should be started.
func serveWorker(cs *coordState, p *Prop, id int, seed uint64, hang time.Duration) bool {
	cmd := workerCmd(p, "worker", p.ID, strconv.FormatUint(seed, 10))
	stdin, _ := cmd.StdinPipe()
	stdout, _ := cmd.StdoutPipe()
	var stderr bytes.Buffer
	cmd.Stderr = &stderr
	if err := cmd.Start(); err != nil {
		cs.mu.Lock()
		cs.harness = append(cs.harness, "cannot start worker: "+err.Error())
		cs.mu.Unlock()
		return false
	}
	w := &worker{id: id, cmd: cmd, stdin: stdin, stderr: &stderr, curIdx: -1}
	lines := make(chan string, 64)
	go func() {
		sc := bufio.NewScanner(stdout)
		sc.Buffer(make([]byte, 1<<20), 256<<20)
		for sc.Scan() {
			lines <- sc.Text()
		}
		close(lines)
	}()
	ready := false
	batchDone := true
	var from, to int
	giveWork := func() bool {
		var ok bool
		from, to, ok = cs.take()
		if !ok {
			return false
		}
		batchDone = false
		w.curIdx = -1
		w.lastBeg = time.Now()
		fmt.Fprintf(stdin, "%d %d\n", from, to)
		return true
	}
	tick := time.NewTicker(500 * time.Millisecond)
	defer tick.Stop()
	startT := time.Now()
	for {
		select {
		case ln, ok := <-lines:
			if !ok {
				// worker ended
				cmd.Wait()
				if !ready {
					cs.mu.Lock()
					cs.harness = append(cs.harness, "worker exited before becoming ready: "+lastLines(stderr.String(), 5))
					cs.mu.Unlock()
					return false
				}
				if batchDone {
					return false
				}
				// died in the middle of run curIdx
				handleDeath(cs, p, seed, w, from, to, stderr.String(), hang)
				return true
			}
			switch {
			case ln == "READY":
				ready = true
				if !giveWork() {
					stdin.Close()
				}
			case strings.HasPrefix(ln, "B "):
				w.curIdx, _ = strconv.Atoi(ln[2:])
				w.lastBeg = time.Now()
			case strings.HasPrefix(ln, "V "):
				var v wireViol
				if json.Unmarshal([]byte(ln[2:]), &v) == nil {
					cs.mu.Lock()
					cs.viols = append(cs.viols, v)
					cs.mu.Unlock()
				}
			case strings.HasPrefix(ln, "K "):
				var k wireKnown
				if json.Unmarshal([]byte(ln[2:]), &k) == nil {
					cs.mu.Lock()
					if _, ok := cs.knowns[k.V.Class]; !ok {
						cs.knowns[k.V.Class] = k
					}
					cs.knownN[k.V.Class]++
					cs.mu.Unlock()
				}
			case strings.HasPrefix(ln, "E "):
				var b wireBatch
				if err := json.Unmarshal([]byte(ln[2:]), &b); err == nil {
					cs.merge(&b)
				}
				batchDone = true
				if !giveWork() {
					stdin.Close()
				}
			default:
				// stray output from the library/tools (they print); ignored
			}
		case <-tick.C:
			if !ready {
				if time.Since(startT) > 120*time.Second {
					cmd.Process.Kill()
					cs.mu.Lock()
					cs.harness = append(cs.harness, "worker did not become ready: "+lastLines(stderr.String(), 5))
					cs.mu.Unlock()
					return false
				}
				continue
			}
			if !batchDone && time.Since(w.lastBeg) > hang {
				cmd.Process.Kill()
				cmd.Wait()
				handleHang(cs, p, seed, w, from, to, hang)
				return true
			}
		}
	}
}

func (cs *coordState) merge(b *wireBatch) {
	cs.mu.Lock()
	defer cs.mu.Unlock()
	cs.agg.Runs += b.Runs
	cs.agg.NonTriv += b.NonTriv
	cs.agg.SimNs += b.SimNs
	cs.agg.Steps += b.Steps
	for _, s := range b.Sigs {
		cs.sigs[s] = struct{}{}
	}
	for k, v := range b.Faults {
		cs.agg.Faults[k] += v
	}
	for k, v := range b.Probes {
		cs.agg.Probes[k] += v
	}
	for k, v := range b.Maxes {
		if cur, ok := cs.agg.Maxes[k]; !ok || v > cur {
			cs.agg.Maxes[k] = v
		}
	}
	for _, rs := range b.RunSigs {
		if cs.runSigs == nil {
			cs.runSigs = map[uint64]uint64{}
		}
		cs.runSigs[rs[0]] = rs[1]
	}
	if len(cs.agg.Samples) < 6 {
		cs.agg.Samples = append(cs.agg.Samples, b.Samples...)
	}
	cs.agg.Aborts = append(cs.agg.Aborts, b.Aborts...)
	if b.MaxRSS > cs.maxRSSkb {
		cs.maxRSSkb = b.MaxRSS
	}
}

// confirm re-executes run idx from its seed in fresh processes with growing budgets.
// Returns how many of the attempts exceeded their budget / died, and the last stderr.
func confirm(p *Prop, seed uint64, idx int, budget time.Duration) (hung int, died int, lastErr string) {
	for i := 0; i < 3; i++ {
		if i > 0 {
			budget *= 2
		}
		cmd := workerCmd(p, "runidx", p.ID, strconv.FormatUint(seed, 10), strconv.Itoa(idx))
		var eb bytes.Buffer
		cmd.Stderr = &eb
		cmd.Stdout = io.Discard
		if err := cmd.Start(); err != nil {
			continue
		}
		done := make(chan error, 1)
		go func() { done <- cmd.Wait() }()
		select {
		case err := <-done:
			if err != nil {
				died++
				lastErr = eb.String()
			}
		case <-time.After(budget):
			cmd.Process.Kill()
			<-done
			hung++
		}
	}
	return
}

func fatalSummary(stderr string) string {
	for _, ln := range strings.Split(stderr, "\n") {
		if strings.HasPrefix(ln, "fatal error:") || strings.HasPrefix(ln, "runtime:") || strings.HasPrefix(ln, "panic:") {
			return strings.TrimSpace(ln)
		}
	}
	return lastLines(stderr, 2)
}

func handleHang(cs *coordState, p *Prop, seed uint64, w *worker, from, to int, hang time.Duration) {
	idx := w.curIdx
	if idx < 0 {
		idx = from
	}
	hung, _, _ := confirm(p, seed, idx, hang)
	cs.mu.Lock()
	defer cs.mu.Unlock()
	if hung == 3 {
		cs.extra = append(cs.extra, ReplayFile{Property: p.ID, Seed: seed, RunIndex: idx, Kind: "hang",
			Violation: Violation{Class: "hang", Msg: fmt.Sprintf("run %d exceeded the wall budget %v, and 1x/2x/4x of it in three fresh processes", idx, hang)}})
	} else {
		// not a hang of the code under test: the machine was busy (other jobs, a long collection). The run is executed
		// again with the rest of its batch; only a run that keeps overrunning without ever reproducing in fresh processes
		// is reported as trouble
		if cs.retries == nil {
			cs.retries = map[int]int{}
		}
		cs.retries[idx]++
		if cs.retries[idx] <= 2 {
			cs.notes = append(cs.notes, fmt.Sprintf("run %d exceeded the wall budget once, not reproduced in fresh processes (%d/3): its batch [%d,%d) is executed again", idx, hung, from, to))
			cs.redo = append(cs.redo, [2]int{from, to}) // a batch reports at its end: nothing of it has been counted yet
			return
		}
		cs.harness = append(cs.harness, fmt.Sprintf("run %d exceeded wall budget repeatedly but never reproducibly (%d/3): environment", idx, hung))
	}
	if idx+1 < to {
		cs.redo = append(cs.redo, [2]int{idx + 1, to})
	}
}

func handleDeath(cs *coordState, p *Prop, seed uint64, w *worker, from, to int, stderr string, hang time.Duration) {
	idx := w.curIdx
	if idx < 0 {
		cs.mu.Lock()
		cs.harness = append(cs.harness, "worker died outside a run: "+lastLines(stderr, 5))
		cs.mu.Unlock()
		return
	}
	_, died, lastErr := confirm(p, seed, idx, hang)
	cs.mu.Lock()
	defer cs.mu.Unlock()
	if died == 3 && p.FatalNoClaim {
		cs.agg.Probes["worker-died-inside-tool(no claim)"]++
	} else if died == 3 && p.FatalIsViol {
		sum := fatalSummary(lastErr)
		cs.extra = append(cs.extra, ReplayFile{Property: p.ID, Seed: seed, RunIndex: idx, Kind: "fatal",
			Violation: Violation{Class: "fatal:" + sum, Msg: fmt.Sprintf("worker process died in run %d in 3/3 fresh processes: %s", idx, sum)}})
	} else {
		cs.harness = append(cs.harness, fmt.Sprintf("worker died in run %d (reproduced %d/3): %s", idx, died, fatalSummary(stderr)))
	}
	if idx+1 < to {
		cs.redo = append(cs.redo, [2]int{idx + 1, to})
	}
}

// ReplayDispatch replays a file in the right kind of worker binary (tool harness, race build or vsim itself).
func ReplayDispatch(path string) int {
	b, err := os.ReadFile(path)
	if err != nil {
		fmt.Fprintln(os.Stderr, err)
		return 2
	}
	var rf ReplayFile
	if err := json.Unmarshal(b, &rf); err != nil {
		fmt.Fprintln(os.Stderr, err)
		return 2
	}
	p := Lookup(rf.Property)
	if p == nil {
		fmt.Fprintf(os.Stderr, "unknown property %s\n", rf.Property)
		return 2
	}
	if p.Tool == "" && !p.Race {
		return ReplayMain(path)
	}
	cmd := workerCmd(p, "replay-local", path)
	cmd.Stdout = os.Stdout
	cmd.Stderr = os.Stderr
	cmd.Run()
	return cmd.ProcessState.ExitCode()
}
