//go:build go1.21

package sim

import (
	"fmt"
	"runtime"
	"sort"
	"strings"
)

// Violation is a property violation found in a run.
type Violation struct {
	Class string `json:"class"` // stable key: used for known findings and "same violation" during shrinking
	Msg   string `json:"msg"`
}

// stopRun is the sentinel used to unwind a run after an unknown violation.
type stopRun struct{}

// Run is the context of one simulated run: tape, counters, virtual clock, trace.
type Run struct {
	T       *Tape
	Prop    string
	Index   int
	Faults  map[string]int   // fault kind -> times it fired (changed an outcome)
	Probes  map[string]int   // "rare condition was hit" counters
	Maxes   map[string]int64 // maxima of measured quantities (reported in evidence)
	sig     uint64
	NonTriv bool
	Trace   []string
	traceOn bool
	NowNs   int64 // virtual time
	Viol    []Violation
	// ClassTag is appended to the class of every violation raised from now on: a world sets it when the run has
	// entered a history that a recorded finding is about, so that the finding is identified by that history and the
	// same violation class outside it is still reported
	ClassTag string
	Known    []Violation
	known    *KnownFindings
	Steps    int
	OpCount  int
}

const maxTrace = 400

func newRun(prop string, idx int, t *Tape, kf *KnownFindings, trace bool) *Run {
	return &Run{T: t, Prop: prop, Index: idx, Faults: map[string]int{}, Probes: map[string]int{}, Maxes: map[string]int64{},
		sig: 1469598103934665603, known: kf, traceOn: trace}
}

// Event mixes a (kind, values) tuple into the run signature. Used for distinctness.
func (r *Run) Event(kind string, vals ...int) {
	h := r.sig
	for i := 0; i < len(kind); i++ {
		h ^= uint64(kind[i])
		h *= 1099511628211
	}
	for _, v := range vals {
		h ^= uint64(v) + 0x9e37
		h *= 1099511628211
	}
	r.sig = h
	r.Steps++
}

// Logf appends a line to the human-readable trace (no tape draws, no clock reads).
func (r *Run) Logf(format string, a ...interface{}) {
	if !r.traceOn {
		return
	}
	if len(r.Trace) < maxTrace {
		r.Trace = append(r.Trace, fmt.Sprintf(format, a...))
	} else if len(r.Trace) == maxTrace {
		r.Trace = append(r.Trace, "... trace truncated")
	}
}

// Fault records that a fault of the given kind fired inside an operation.
func (r *Run) Fault(kind string) {
	r.Faults[kind]++
	r.NonTriv = true
	r.Event("F:" + kind)
}

// Probe records that an interesting branch/condition was reached.
func (r *Run) Probe(name string) { r.Probes[name]++ }

// Max records the maximum of a measured quantity.
func (r *Run) Max(name string, v int64) {
	if cur, ok := r.Maxes[name]; !ok || v > cur {
		r.Maxes[name] = v
	}
}

// Advance moves virtual time.
func (r *Run) Advance(ns int64) { r.NowNs += ns }

// Violate reports a violation. If it matches an open known finding the run continues,
// otherwise the run is unwound.
func (r *Run) Violate(class, format string, a ...interface{}) {
	v := Violation{Class: class + r.ClassTag, Msg: fmt.Sprintf(format, a...)}
	r.Logf("VIOLATION %s: %s", v.Class, v.Msg)
	if r.known != nil && r.known.Match(r.Prop, v) != nil {
		if len(r.Known) < 16 {
			r.Known = append(r.Known, v)
		}
		return
	}
	r.Viol = append(r.Viol, v)
	panic(stopRun{})
}

// Signature returns the run signature.
func (r *Run) Signature() uint64 { return r.sig }

// repoFrame extracts the top stack frame inside mp4ff (not the harness) from a stack dump.
func repoFrame(stack string) string {
	lines := strings.Split(stack, "\n")
	for _, ln := range lines {
		ln = strings.TrimSpace(ln)
		if !strings.HasPrefix(ln, "github.com/Eyevinn/mp4ff/") && !strings.HasPrefix(ln, "main.") {
			continue
		}
		if strings.Contains(strings.ToLower(ln), "vsim") {
			continue // harness frames (package internal/vsim/..., main.vsim* in tool harnesses)
		}
		if i := strings.LastIndex(ln, "("); i > 0 {
			ln = ln[:i]
		}
		return strings.TrimPrefix(ln, "github.com/Eyevinn/mp4ff/")
	}
	return "unknown"
}

// panicOrigin returns the function in which a recovered panic was raised (first non-runtime frame
// below the panic call in the stack dump).
func panicOrigin(stack string) string {
	lines := strings.Split(stack, "\n")
	seenPanic := false
	for _, ln := range lines {
		if strings.HasPrefix(ln, "\t") || ln == "" {
			continue
		}
		if strings.HasPrefix(ln, "panic(") {
			seenPanic = true
			continue
		}
		if !seenPanic || strings.HasPrefix(ln, "runtime.") || strings.HasPrefix(ln, "runtime/") {
			continue
		}
		return ln
	}
	return ""
}

// IsHarnessFrame tells whether a stack line belongs to the simulator rather than to mp4ff.
func IsHarnessFrame(ln string) bool { return strings.Contains(strings.ToLower(ln), "vsim") }

// PanicClass builds the class of a recovered panic: kind of panic + top repo function.
func PanicClass(rec interface{}, stack string) (string, string) {
	kind := "panic"
	msg := fmt.Sprint(rec)
	if re, ok := rec.(runtime.Error); ok {
		m := re.Error()
		switch {
		case strings.Contains(m, "nil pointer"):
			kind = "panic-nil"
		case strings.Contains(m, "index out of range"):
			kind = "panic-index"
		case strings.Contains(m, "slice bounds"):
			kind = "panic-slice"
		case strings.Contains(m, "makeslice") || strings.Contains(m, "len out of range"):
			kind = "panic-makeslice"
		case strings.Contains(m, "divide"):
			kind = "panic-div"
		case strings.Contains(m, "interface conversion"):
			kind = "panic-conv"
		default:
			kind = "panic-runtime"
		}
	}
	return kind + ":" + repoFrame(stack), msg + " @ " + stackSummary(stack)
}

// stackSummary lists the first few function frames of a stack dump (for the violation message).
func stackSummary(stack string) string {
	var fr []string
	for _, ln := range strings.Split(stack, "\n") {
		if strings.HasPrefix(ln, "\t") || strings.HasPrefix(ln, "goroutine") || ln == "" {
			continue
		}
		if strings.HasPrefix(ln, "runtime") || strings.HasPrefix(ln, "panic(") {
			continue
		}
		if i := strings.LastIndex(ln, "("); i > 0 {
			ln = ln[:i]
		}
		ln = strings.TrimPrefix(ln, "github.com/Eyevinn/mp4ff/")
		fr = append(fr, ln)
		if len(fr) >= 6 {
			break
		}
	}
	return strings.Join(fr, " < ")
}

// Guard runs f and converts a library panic into a violation of class panic-*:<func>.
// Harness aborts and stopRun sentinels pass through.
func (r *Run) Guard(what string, f func()) {
	defer func() {
		if rec := recover(); rec != nil {
			switch rec.(type) {
			case stopRun, HarnessAbort:
				panic(rec)
			}
			buf := make([]byte, 16<<10)
			n := runtime.Stack(buf, false)
			if o := panicOrigin(string(buf[:n])); o != "" && IsHarnessFrame(o) {
				panic(HarnessAbort{Msg: fmt.Sprintf("panic raised in harness code %s: %v", o, rec)})
			}
			class, msg := PanicClass(rec, string(buf[:n]))
			r.Violate(class, "%s: panic: %s", what, msg)
		}
	}()
	f()
}

func sortedKeys(m map[string]int) []string {
	ks := make([]string, 0, len(m))
	for k := range m {
		ks = append(ks, k)
	}
	sort.Strings(ks)
	return ks
}
