//go:build go1.21 && race

package sim

func init() { RaceEnabled = true }
