//go:build go1.21

package sim

import (
	"encoding/json"
	"os"
	"strings"
)

// KnownFinding is one entry of /verif/known_findings.json. Status "open" findings are
// reported as KNOWN-FINDING and do not fail a check; "fixed" entries suppress nothing.
type KnownFinding struct {
	Property string `json:"property"`
	Status   string `json:"status"`           // "open" | "fixed"
	Class    string `json:"class"`            // exact violation class, or prefix when it ends in '*'
	Contains string `json:"contains"`         // optional: substring that must occur in the message
	What     string `json:"what"`             // human description of what fails
	Commit   string `json:"commit,omitempty"` // for fixed entries
	Line     string `json:"line,omitempty"`   // the "fixed: property=<id> <commit> <what failed>" line
}

// collectAll (env VSIM_COLLECT=1) is a development aid: every violation is treated like a known
// finding so that one sweep lists all violation classes. Never set by the registered checks.
var collectAll = os.Getenv("VSIM_COLLECT") == "1"

type KnownFindings struct {
	Findings []KnownFinding `json:"findings"`
}

// LoadKnown reads the committed known-findings file. It is never written at run time.
func LoadKnown(path string) (*KnownFindings, error) {
	b, err := os.ReadFile(path)
	if err != nil {
		if os.IsNotExist(err) {
			return &KnownFindings{}, nil
		}
		return nil, err
	}
	var k KnownFindings
	if err := json.Unmarshal(b, &k); err != nil {
		return nil, err
	}
	return &k, nil
}

// Match returns the open known finding that covers v, or nil.
func (k *KnownFindings) Match(prop string, v Violation) *KnownFinding {
	if k == nil {
		return nil
	}
	if collectAll {
		return &KnownFinding{Property: prop, Status: "open", Class: v.Class, What: "(collect mode) " + v.Msg}
	}
	for i := range k.Findings {
		f := &k.Findings[i]
		if f.Status != "open" || f.Property != prop {
			continue
		}
		if !globMatch(f.Class, v.Class) {
			continue
		}
		if f.Contains != "" && !strings.Contains(v.Msg, f.Contains) {
			continue
		}
		return f
	}
	return nil
}

// Without returns a copy in which the entries matching v are removed (used on replay, so
// that replaying a known finding shows it as a violation).
func (k *KnownFindings) Without(prop string, v Violation) *KnownFindings {
	if k == nil {
		return nil
	}
	out := &KnownFindings{}
	for _, f := range k.Findings {
		one := &KnownFindings{Findings: []KnownFinding{f}}
		if one.Match(prop, v) != nil {
			continue
		}
		out.Findings = append(out.Findings, f)
	}
	return out
}

// globMatch matches s against a pattern in which '*' stands for any (possibly empty) substring.
func globMatch(pat, s string) bool {
	parts := strings.Split(pat, "*")
	if len(parts) == 1 {
		return pat == s
	}
	if !strings.HasPrefix(s, parts[0]) {
		return false
	}
	s = s[len(parts[0]):]
	for i := 1; i < len(parts)-1; i++ {
		j := strings.Index(s, parts[i])
		if j < 0 {
			return false
		}
		s = s[j+len(parts[i]):]
	}
	return strings.HasSuffix(s, parts[len(parts)-1])
}
