//go:build go1.21

package sim

import (
	"bufio"
	"encoding/json"
	"fmt"
	"os"
	"runtime"
	"runtime/debug"
	"sort"
	"strconv"
	"strings"
	"syscall"
	"time"
)

// Prop is one property world: a workload + oracle executed once per run, driven by the tape.
type Prop struct {
	ID           string
	Level        string // evidence level
	Rule         string // how cases are generated and what makes one non-trivial/distinct
	Assumptions  []string
	Real         []string // components that ran real code
	Stub         []string // simulated / stubbed components
	RealNoFault  []string // real but un-faulted
	Runs         map[string]int
	WallCap      map[string]time.Duration // stop handing out runs after this (safety cap)
	HangBudget   time.Duration            // per-run wall budget before the watchdog acts
	Setup        func() error             // once per worker process
	Run          func(r *Run)             // one run
	Race         bool                     // worker must be the -race binary
	Tool         string                   // worker is the tool harness test binary of this name ("" = vsim itself)
	FatalIsViol  bool                     // a reproducible worker death is a violation of this property
	Attempts     int                      // replay/minimisation re-execute a tape up to this many times until the violation shows (race reports are a sound but probabilistic sensor); 0 = 1
	FatalNoClaim bool                     // a reproducible worker death means "the tool did not succeed": counted, nothing demanded
	WantFaults   []string                 // fault kinds a thorough run is expected to fire (reach self-check)
	WantProbes   []string
	MemLimit     uint64 // RLIMIT_AS for workers (0 = default 12 GiB; ignored for race)
}

var registry = map[string]*Prop{}

// digestMode (env VSIM_DIGEST=1): workers report a signature for every run and the coordinator prints one
// digest over (run index -> signature, tape length, virtual time, outcome): the determinism self-test compares
// it across processes, worker counts and GOMAXPROCS values.
var digestMode = os.Getenv("VSIM_DIGEST") == "1"

// Register adds a property world.
func Register(p *Prop) {
	if _, dup := registry[p.ID]; dup {
		panic("duplicate prop " + p.ID)
	}
	registry[p.ID] = p
}

// Lookup finds a property world.
func Lookup(id string) *Prop { return registry[id] }

// IDs lists registered ids, sorted.
func IDs() []string {
	var ids []string
	for k := range registry {
		ids = append(ids, k)
	}
	sort.Strings(ids)
	return ids
}

// Out is the process's original stdout: tool harnesses redirect os.Stdout to silence the tools' own
// printing, the worker protocol and replay output keep using the real one.
var Out = os.Stdout

// VerifDir is /verif unless overridden (used by vp run snapshots).
func VerifDir() string {
	if d := os.Getenv("VERIF_DIR"); d != "" {
		return d
	}
	return "/verif"
}

// RepoDir is /repo unless overridden.
func RepoDir() string {
	if d := os.Getenv("VERIF_REPO"); d != "" {
		return d
	}
	return "/repo"
}

// RunSeed derives the seed of run idx.
func RunSeed(seed uint64, prop string, idx int) uint64 {
	return Mix(seed, HashString(prop), uint64(idx))
}

// NewScratchRun makes a run context outside any check (used by Setup code that reuses builders which log/draw).
func NewScratchRun(t *Tape) *Run { return newRun("setup", 0, t, nil, false) }

// RunResult is what executing one tape gives.
type RunResult struct {
	Run   *Run
	Abort string // harness abort message
}

// Execute performs one run on the given tape. Library panics that escape a Guard are
// converted to violations too.
func Execute(p *Prop, idx int, t *Tape, kf *KnownFindings, trace bool) (res RunResult) {
	r := newRun(p.ID, idx, t, kf, trace)
	res.Run = r
	defer func() {
		if rec := recover(); rec != nil {
			switch x := rec.(type) {
			case stopRun:
				return
			case HarnessAbort:
				res.Abort = x.Msg
				return
			}
			buf := make([]byte, 16<<10)
			n := runtime.Stack(buf, false)
			if o := panicOrigin(string(buf[:n])); o == "" || IsHarnessFrame(o) {
				res.Abort = fmt.Sprintf("panic raised in harness code %s: %v @ %s", o, rec, stackSummary(string(buf[:n])))
				return
			}
			class, msg := PanicClass(rec, string(buf[:n]))
			v := Violation{Class: class + r.ClassTag, Msg: "panic: " + msg}
			r.Logf("VIOLATION %s: %s", v.Class, v.Msg)
			if kf != nil && kf.Match(p.ID, v) != nil {
				r.Known = append(r.Known, v)
				return
			}
			r.Viol = append(r.Viol, v)
		}
	}()
	p.Run(r)
	return
}

// ExecuteRetry re-executes the same tape up to p.Attempts times and returns the first execution that violates
// (or the last one). Used for replay and minimisation only. A violation can never be manufactured by repetition;
// repetition only compensates for sensors that may miss (the race detector loses a report when some runtime-internal
// synchronisation happens to order the two goroutines).
func ExecuteRetry(p *Prop, idx int, tape []uint32, kf *KnownFindings, trace bool) RunResult {
	return executeRetryN(p, idx, tape, kf, trace, p.Attempts)
}

func executeRetryN(p *Prop, idx int, tape []uint32, kf *KnownFindings, trace bool, n int) RunResult {
	if n < 1 {
		n = 1
	}
	var res RunResult
	for i := 0; i < n; i++ {
		res = Execute(p, idx, ReplayTape(tape), kf, trace)
		if res.Abort != "" || len(res.Run.Viol) > 0 {
			return res
		}
	}
	return res
}

// wire messages worker -> coordinator
type wireViol struct {
	Idx   int       `json:"idx"`
	V     Violation `json:"v"`
	Tape  []uint32  `json:"tape"`
	Trace []string  `json:"trace"`
	Det   bool      `json:"det"` // re-execution of the recorded tape gave the same class
}

type wireKnown struct {
	Idx int       `json:"idx"`
	V   Violation `json:"v"`
}

type wireSample struct {
	Idx   int      `json:"idx"`
	Trace []string `json:"trace"`
}

type wireBatch struct {
	Runs    int              `json:"runs"`
	NonTriv int              `json:"nontriv"`
	Sigs    []uint64         `json:"sigs"` // signatures of non-trivial runs
	Faults  map[string]int   `json:"faults"`
	Probes  map[string]int   `json:"probes"`
	Maxes   map[string]int64 `json:"maxes"`
	SimNs   int64            `json:"simns"`
	Steps   int64            `json:"steps"`
	Samples []wireSample     `json:"samples"`
	Aborts  []string         `json:"aborts"`
	MaxRSS  int64            `json:"maxrss"`
	RunSigs [][2]uint64      `json:"runsigs,omitempty"` // (run index, signature incl. outcome) of every run: determinism self-test only
}

func setMemLimit(p *Prop) {
	if p.Race {
		return
	}
	lim := p.MemLimit
	if lim == 0 {
		lim = 12 << 30
	}
	_ = syscall.Setrlimit(syscall.RLIMIT_AS, &syscall.Rlimit{Cur: lim, Max: lim})
}

// WorkerMain serves batches "from to" read from stdin until EOF.
func WorkerMain(propID string, seed uint64) int {
	p := Lookup(propID)
	if p == nil {
		fmt.Fprintf(os.Stderr, "worker: unknown property %s\n", propID)
		return 2
	}
	setMemLimit(p)
	debug.SetGCPercent(200)
	kf, err := LoadKnown(VerifDir() + "/known_findings.json")
	if err != nil {
		fmt.Fprintf(os.Stderr, "worker: known findings: %v\n", err)
		return 2
	}
	if p.Setup != nil {
		if err := p.Setup(); err != nil {
			fmt.Fprintf(os.Stderr, "worker: setup: %v\n", err)
			return 2
		}
	}
	out := bufio.NewWriterSize(Out, 1<<16)
	emit := func(tag string, v interface{}) {
		b, _ := json.Marshal(v)
		out.WriteString(tag)
		out.WriteByte(' ')
		out.Write(b)
		out.WriteByte('\n')
		out.Flush()
	}
	fmt.Fprintln(out, "READY")
	out.Flush()
	sc := bufio.NewScanner(os.Stdin)
	for sc.Scan() {
		f := strings.Fields(sc.Text())
		if len(f) != 2 {
			continue
		}
		from, _ := strconv.Atoi(f[0])
		to, _ := strconv.Atoi(f[1])
		b := wireBatch{Faults: map[string]int{}, Probes: map[string]int{}, Maxes: map[string]int64{}}
		for idx := from; idx < to; idx++ {
			fmt.Fprintf(out, "B %d\n", idx)
			out.Flush()
			t := NewTape(RunSeed(seed, p.ID, idx))
			res := Execute(p, idx, t, kf, false)
			r := res.Run
			b.Runs++
			b.SimNs += r.NowNs
			b.Steps += int64(r.Steps)
			if res.Abort != "" {
				b.Aborts = append(b.Aborts, fmt.Sprintf("run %d: %s", idx, res.Abort))
			}
			for k, v := range r.Faults {
				b.Faults[k] += v
			}
			for k, v := range r.Probes {
				b.Probes[k] += v
			}
			for k, v := range r.Maxes {
				if cur, ok := b.Maxes[k]; !ok || v > cur {
					b.Maxes[k] = v
				}
			}
			if r.NonTriv {
				b.NonTriv++
				b.Sigs = append(b.Sigs, r.Signature())
			}
			if digestMode {
				sg := r.Signature()
				for _, v := range r.Viol {
					sg = Mix(sg, HashString(v.Class))
				}
				for _, v := range r.Known {
					sg = Mix(sg, HashString(v.Class))
				}
				sg = Mix(sg, uint64(len(t.Recorded())), uint64(r.NowNs))
				b.RunSigs = append(b.RunSigs, [2]uint64{uint64(idx), sg})
			}
			for _, kv := range r.Known {
				emit("K", wireKnown{idx, kv})
			}
			if len(r.Viol) > 0 {
				// re-execute the recorded tape with tracing on: gives the trace and proves replayability
				res2 := ExecuteRetry(p, idx, append([]uint32(nil), t.Recorded()...), kf, true)
				det := len(res2.Run.Viol) > 0 && res2.Run.Viol[0].Class == r.Viol[0].Class
				emit("V", wireViol{idx, r.Viol[0], t.Recorded(), res2.Run.Trace, det})
			} else if len(b.Samples) < 1 && (idx%64 == 0 || idx == from) && r.NonTriv {
				t2 := ReplayTape(append([]uint32(nil), t.Recorded()...))
				res2 := Execute(p, idx, t2, kf, true)
				tr := res2.Run.Trace
				if len(tr) > 40 {
					tr = append(tr[:40:40], "...")
				}
				b.Samples = append(b.Samples, wireSample{idx, tr})
			}
		}
		var ru syscall.Rusage
		if syscall.Getrusage(syscall.RUSAGE_SELF, &ru) == nil {
			b.MaxRSS = ru.Maxrss
		}
		emit("E", b)
	}
	return 0
}

// Replay file format.
type ReplayFile struct {
	Property  string    `json:"property"`
	Seed      uint64    `json:"seed"`
	RunIndex  int       `json:"run_index"`
	Violation Violation `json:"violation"`
	Tape      []uint32  `json:"tape"`
	Trace     []string  `json:"trace"`
	Minimised bool      `json:"minimised"`
	OrigLen   int       `json:"original_tape_len,omitempty"`
	Kind      string    `json:"kind,omitempty"` // "tape" (default) | "hang" | "fatal"
	Note      string    `json:"note,omitempty"`
}

// ReplayMain re-executes a replay file in this (fresh) process. Exit 1 + VIOLATION line if
// the same violation class reproduces, 0 if nothing is violated, 3 if something else happens.
func ReplayMain(path string) int {
	b, err := os.ReadFile(path)
	if err != nil {
		fmt.Fprintln(os.Stderr, err)
		return 2
	}
	var rf ReplayFile
	if err := json.Unmarshal(b, &rf); err != nil {
		fmt.Fprintln(os.Stderr, err)
		return 2
	}
	p := Lookup(rf.Property)
	if p == nil {
		fmt.Fprintf(os.Stderr, "unknown property %s\n", rf.Property)
		return 2
	}
	setMemLimit(p)
	if p.Setup != nil {
		if err := p.Setup(); err != nil {
			fmt.Fprintln(os.Stderr, err)
			return 2
		}
	}
	var t *Tape
	if rf.Tape == nil && rf.Kind != "" {
		t = NewTape(RunSeed(rf.Seed, p.ID, rf.RunIndex))
	} else {
		t = ReplayTape(rf.Tape)
	}
	// open known findings other than the recorded one are applied as in the original run
	kf, _ := LoadKnown(VerifDir() + "/known_findings.json")
	kf = kf.Without(p.ID, rf.Violation)
	var res RunResult
	if rf.Tape == nil && rf.Kind != "" {
		res = Execute(p, rf.RunIndex, t, kf, true)
	} else {
		res = ExecuteRetry(p, rf.RunIndex, rf.Tape, kf, true)
	}
	for _, ln := range res.Run.Trace {
		fmt.Fprintln(Out, "  "+ln)
	}
	if res.Abort != "" {
		fmt.Fprintf(Out, "harness abort: %s\n", res.Abort)
		return 2
	}
	if len(res.Run.Viol) == 0 {
		fmt.Fprintf(Out, "replay: no violation (expected class %s)\n", rf.Violation.Class)
		return 0
	}
	v := res.Run.Viol[0]
	fmt.Fprintf(Out, "replayed: class=%s msg=%s\n", v.Class, v.Msg)
	fmt.Fprintf(Out, "VIOLATION property=%s replay=%s\n", rf.Property, path)
	if v.Class != rf.Violation.Class {
		fmt.Fprintf(Out, "replay: class differs from recorded %s\n", rf.Violation.Class)
		return 3
	}
	return 1
}
