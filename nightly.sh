#!/bin/bash
# development aid: self-test, then the thorough tier of every property with a given seed (sequential)
seed=${1:-3}
./check selftest 1500 2>&1 | tail -3
for id in C02 C03 C04 C05 C06 C08 C10 C11 C12 C19 C20; do
  echo "=== thorough $id seed=$seed  $(date +%H:%M:%S)"
  VERIF_SEED=$seed ./check $id --tier thorough 2>&1 | grep -v "^WARNING\|^  \|^$\|^=====\|DATA RACE" | cut -c1-400 | tail -12
done
echo "=== done $(date +%H:%M:%S)"
